pub use clif_core::{FunctionBuilder, FunctionBuilderContext, Variable};
