//! Stub of the Cranelift builder API used by rbpf's src/cranelift.rs: the ASSUMED contract of
//! the dependency (Cranelift 0.127 IR semantics), written from Cranelift's documentation.
//! Every `ins()` call is EVALUATED EAGERLY on 64-bit values (symbolic under Kani), so that
//! the IR a straight-line translation emits can be compared with the eBPF ISA spec:
//!   * integer ops wrap at the width of their type; shifts take the count modulo the width;
//!   * `udiv`/`urem` trap on a zero divisor;
//!   * `load`/`store`/`atomic_rmw` are little-endian accesses of `ty.bytes()` bytes at base+offset,
//!     recorded in an access log; `trapz(c, _)` traps (stops execution) when c == 0;
//!   * block structure is recorded (creation, switch, terminators) for the CFG obligations.
//! TRUSTED: that these definitions match Cranelift, and Cranelift's own code generation.
#![allow(unused, non_upper_case_globals, clippy::all)]

pub const MAXV: usize = 96;
pub const MAXB: usize = 12;

#[derive(Clone, Copy, PartialEq, Eq, Debug)]
pub struct Type(pub u8);
pub const I8: Type = Type(8);
pub const I16: Type = Type(16);
pub const I32: Type = Type(32);
pub const I64: Type = Type(64);
impl Type {
    pub fn bytes(self) -> u32 { (self.0 / 8) as u32 }
    pub fn bits(self) -> u32 { self.0 as u32 }
}
fn mask(t: Type) -> u64 { if t.0 >= 64 { u64::MAX } else { (1u64 << t.0) - 1 } }

#[derive(Clone, Copy, PartialEq, Eq, Debug, PartialOrd, Ord, Hash)]
pub struct Value(pub u32);
#[derive(Clone, Copy, PartialEq, Eq, Debug, PartialOrd, Ord, Hash)]
pub struct Variable(pub u32);
impl Variable { pub fn new(i: usize) -> Variable { Variable(i as u32) } }
pub trait EntityRef { fn new(i: usize) -> Self; fn index(self) -> usize; }
impl EntityRef for Variable { fn new(i: usize) -> Self { Variable(i as u32) } fn index(self) -> usize { self.0 as usize } }
#[derive(Clone, Copy, PartialEq, Eq, Debug, PartialOrd, Ord, Hash)]
pub struct Block(pub u32);
#[derive(Clone, Copy, PartialEq, Eq, Debug)]
pub struct FuncRef(pub u32);
#[derive(Clone, Copy, PartialEq, Eq, Debug)]
pub struct FuncId(pub u32);
#[derive(Clone, Copy, PartialEq, Eq, Debug)]
pub struct Inst(pub u32);
#[derive(Clone, Copy, PartialEq, Eq, Debug)]
pub struct StackSlot(pub u32);

#[derive(Clone, Copy, PartialEq, Eq, Debug)]
pub enum IntCC { Equal, NotEqual, SignedLessThan, SignedGreaterThanOrEqual, SignedGreaterThan, SignedLessThanOrEqual,
    UnsignedLessThan, UnsignedGreaterThanOrEqual, UnsignedGreaterThan, UnsignedLessThanOrEqual }
#[derive(Clone, Copy, PartialEq, Eq, Debug)]
pub enum Endianness { Little, Big }
#[derive(Clone, Copy, PartialEq, Eq, Debug)]
pub enum AtomicRmwOp { Add, Sub, And, Or, Xor, Xchg }
#[derive(Clone, Copy, PartialEq, Eq, Debug)]
pub struct TrapCode(pub u8);
impl TrapCode { pub const HEAP_OUT_OF_BOUNDS: TrapCode = TrapCode(1); }
#[derive(Clone, Copy, PartialEq, Eq, Debug)]
pub struct MemFlags { pub endian: Option<Endianness> }
impl MemFlags { pub fn new() -> Self { MemFlags { endian: None } } pub fn set_endianness(&mut self, e: Endianness) { self.endian = Some(e); } }
#[derive(Clone, Copy, PartialEq, Eq, Debug)]
pub enum CallConv { SystemV }
#[derive(Clone, Copy, PartialEq, Eq, Debug)]
pub struct AbiParam(pub Type);
impl AbiParam { pub fn new(t: Type) -> Self { AbiParam(t) } }
#[derive(Clone, Debug)]
pub struct Signature { pub params: Vec<AbiParam>, pub returns: Vec<AbiParam>, pub call_conv: CallConv }
#[derive(Clone, Copy, Debug)]
pub struct SourceLoc(pub u32);
impl SourceLoc { pub fn new(x: u32) -> Self { SourceLoc(x) } }
#[derive(Clone, Copy, Debug)]
pub enum StackSlotKind { ExplicitSlot }
#[derive(Clone, Copy, Debug)]
pub struct StackSlotData { pub size: u32 }
impl StackSlotData { pub fn new(_k: StackSlotKind, size: u32, _align: u8) -> Self { StackSlotData { size } } }
#[derive(Clone, Debug)]
pub struct UserFuncName;
impl UserFuncName { pub fn testcase<T: AsRef<[u8]>>(_v: T) -> Self { UserFuncName } }
#[derive(Clone, Copy, PartialEq, Eq, Debug)]
pub enum Linkage { Local, Import, Export }

// ------------------------------------------------------------------ recorded evaluation
#[derive(Clone, Copy, PartialEq, Eq, Debug)]
pub enum Access { None, Load { addr: u64, width: u8 }, Store { addr: u64, width: u8, val: u64 }, AtomicAdd { addr: u64, width: u8, val: u64 } }
#[derive(Clone, Copy, PartialEq, Eq, Debug)]
pub enum Term { None, Jump(u32), Brif { taken: bool, then_b: u32, else_b: u32 }, Return(u64) }

/// Everything the harness can observe about one compilation (mirrored into a static at finalize()).
#[derive(Clone, Copy)]
pub struct Trace {
    pub vars: [u64; 24],
    pub nvars: usize,
    /// register file (variables 0..=10 in declaration order) at the start of the instruction at srcloc k (k < 4)
    pub at_srcloc: [[u64; 24]; 4],
    pub block_at_srcloc: [u32; 4],
    pub nsrcloc: usize,
    pub access: Access,
    pub naccess: u8,
    /// a trap (trapz with a zero condition, or division by zero) happened before this many accesses
    pub trapped: bool,
    pub accesses_before_trap: u8,
    pub call: Option<(u32, [u64; 5])>,
    pub ncalls: u8,
    pub terms: [Term; MAXB],
    pub term_count: [u8; MAXB],
    pub switched: [u8; MAXB],
    pub nblocks: u32,
    pub finalized: bool,
    pub sealed: bool,
    pub stack_base: u64,
    pub params: [u64; 4],
    /// size of the (single) explicit stack slot the function declares
    pub stack_slot_size: u32,
    pub nstack_slots: u8,
}
impl Trace {
    pub const fn new() -> Trace {
        Trace { vars: [0; 24], nvars: 0, at_srcloc: [[0; 24]; 4], block_at_srcloc: [u32::MAX; 4], nsrcloc: 0, access: Access::None, naccess: 0,
                trapped: false, accesses_before_trap: 0, call: None, ncalls: 0, terms: [Term::None; MAXB], term_count: [0; MAXB], switched: [0; MAXB],
                nblocks: 0, finalized: false, sealed: false, stack_base: 0, params: [0; 4], stack_slot_size: 0, nstack_slots: 0 }
    }
}
pub static mut TRACE: Trace = Trace::new();

/// multiplication / division / remainder used by the evaluator: the real operations by default; the
/// harness crate installs the same (possibly uninterpreted) functions its ISA spec uses
pub struct Arith { pub mul64: fn(u64, u64) -> u64, pub div64: fn(u64, u64) -> u64, pub rem64: fn(u64, u64) -> u64,
                   pub mul32: fn(u32, u32) -> u32, pub div32: fn(u32, u32) -> u32, pub rem32: fn(u32, u32) -> u32 }
fn r_mul64(a: u64, b: u64) -> u64 { a.wrapping_mul(b) }
fn r_div64(a: u64, b: u64) -> u64 { a / b }
fn r_rem64(a: u64, b: u64) -> u64 { a % b }
fn r_mul32(a: u32, b: u32) -> u32 { a.wrapping_mul(b) }
fn r_div32(a: u32, b: u32) -> u32 { a / b }
fn r_rem32(a: u32, b: u32) -> u32 { a % b }
pub static mut ARITH: Arith = Arith { mul64: r_mul64, div64: r_div64, rem64: r_rem64, mul32: r_mul32, div32: r_div32, rem32: r_rem32 };
/// what the environment answers: chosen by the harness BEFORE compiling
#[derive(Clone, Copy)]
pub struct Oracle { pub load_data: u64, pub call_ret: u64, pub params: [u64; 4], pub stack_base: u64, pub init_vars: [u64; 24] }
pub static mut ORACLE: Oracle = Oracle { load_data: 0, call_ret: 0, params: [0; 4], stack_base: 0, init_vars: [0; 24] };

pub struct Function { pub sig: Signature }
impl Function { pub fn with_name_signature(_n: UserFuncName, sig: Signature) -> Self { Function { sig } } }
pub struct FunctionBuilderContext;
impl FunctionBuilderContext { pub fn new() -> Self { FunctionBuilderContext } }

pub struct FunctionBuilder<'a> {
    pub func: &'a mut Function,
    vals: [(u8, u64); MAXV],
    nvals: usize,
    cur: Option<Block>,
    results: [Value; 1],
    params: [Value; 4],
    pub t: Trace,
}
impl<'a> FunctionBuilder<'a> {
    pub fn new(func: &'a mut Function, _ctx: &'a mut FunctionBuilderContext) -> Self {
        let mut t = Trace::new();
        unsafe { t.stack_base = ORACLE.stack_base; t.params = ORACLE.params; }
        FunctionBuilder { func, vals: [(0, 0); MAXV], nvals: 0, cur: None, results: [Value(0)], params: [Value(0); 4], t }
    }
    fn push(&mut self, ty: Type, v: u64) -> Value {
        assert!(self.nvals < MAXV, "stub: value table full");
        self.vals[self.nvals] = (ty.0, v & mask(ty));
        self.nvals += 1;
        Value((self.nvals - 1) as u32)
    }
    fn val(&self, v: Value) -> u64 { self.vals[v.0 as usize].1 }
    fn ty(&self, v: Value) -> Type { Type(self.vals[v.0 as usize].0) }
    pub fn create_block(&mut self) -> Block {
        assert!((self.t.nblocks as usize) < MAXB, "stub: block table full");
        self.t.nblocks += 1;
        Block(self.t.nblocks - 1)
    }
    pub fn append_block_params_for_function_params(&mut self, _b: Block) {
        let p = self.t.params;
        self.params = [self.push(I64, p[0]), self.push(I64, p[1]), self.push(I64, p[2]), self.push(I64, p[3])];
    }
    pub fn switch_to_block(&mut self, b: Block) {
        // Cranelift panics when switching away from a block that is not terminated ("unfilled")
        if let Some(c) = self.cur { assert!(self.t.term_count[c.0 as usize] > 0, "cranelift: switching away from a block that has no terminator"); }
        let k = b.0 as usize;
        if self.t.switched[k] < 250 { self.t.switched[k] += 1; }
        self.cur = Some(b);
    }
    pub fn current_block(&self) -> Option<Block> { self.cur }
    pub fn block_params(&self, _b: Block) -> &[Value] { &self.params }
    pub fn declare_var(&mut self, _ty: Type) -> Variable {
        let k = self.t.nvars;
        assert!(k < 24, "stub: variable table full");
        self.t.vars[k] = unsafe { ORACLE.init_vars[k] };
        self.t.nvars += 1;
        Variable(k as u32)
    }
    pub fn def_var(&mut self, v: Variable, val: Value) { let x = self.val(val); self.t.vars[v.0 as usize] = x; }
    pub fn use_var(&mut self, v: Variable) -> Value { let x = self.t.vars[v.0 as usize]; self.push(I64, x) }
    pub fn create_sized_stack_slot(&mut self, d: StackSlotData) -> StackSlot { self.t.stack_slot_size = d.size; if self.t.nstack_slots < 250 { self.t.nstack_slots += 1; } StackSlot(0) }
    pub fn set_srcloc(&mut self, s: SourceLoc) {
        let k = s.0 as usize;
        if k < 4 {
            self.t.at_srcloc[k] = self.t.vars;
            self.t.block_at_srcloc[k] = match self.cur { Some(b) => b.0, None => u32::MAX };
            if self.t.nsrcloc < k + 1 { self.t.nsrcloc = k + 1; }
        }
    }
    pub fn inst_results(&self, _i: Inst) -> &[Value] { &self.results }
    pub fn seal_all_blocks(&mut self) { self.t.sealed = true; }
    pub fn finalize(self) { let mut t = self.t; t.finalized = true; unsafe { TRACE = t; } }
    pub fn ins<'s>(&'s mut self) -> Ins<'s, 'a> { Ins { b: self } }
    fn terminate(&mut self, t: Term) {
        let c = self.cur.expect("cranelift: instruction outside a block").0 as usize;
        assert!(self.t.term_count[c] == 0, "cranelift: block already has a terminator");
        self.t.terms[c] = t;
        self.t.term_count[c] = 1;
    }
    fn check_open(&self) {
        let c = self.cur.expect("cranelift: instruction outside a block").0 as usize;
        assert!(self.t.term_count[c] == 0, "cranelift: instruction appended after the terminator of a block");
    }
    fn trap(&mut self) {
        if !self.t.trapped { self.t.trapped = true; self.t.accesses_before_trap = self.t.naccess; }
    }
}

pub struct Ins<'s, 'a> { b: &'s mut FunctionBuilder<'a> }
pub trait InstBuilder: Sized {
    fn bld(&mut self) -> &mut dyn BuilderCore;
    fn iconst(mut self, ty: Type, v: i64) -> Value { self.bld().op_const(ty, v as u64) }
    fn iadd(mut self, a: Value, b: Value) -> Value { self.bld().op2(0, a, b) }
    fn isub(mut self, a: Value, b: Value) -> Value { self.bld().op2(1, a, b) }
    fn imul(mut self, a: Value, b: Value) -> Value { self.bld().op2(2, a, b) }
    fn udiv(mut self, a: Value, b: Value) -> Value { self.bld().op2(3, a, b) }
    fn urem(mut self, a: Value, b: Value) -> Value { self.bld().op2(4, a, b) }
    fn band(mut self, a: Value, b: Value) -> Value { self.bld().op2(5, a, b) }
    fn bor(mut self, a: Value, b: Value) -> Value { self.bld().op2(6, a, b) }
    fn bxor(mut self, a: Value, b: Value) -> Value { self.bld().op2(7, a, b) }
    fn ishl(mut self, a: Value, b: Value) -> Value { self.bld().op2(8, a, b) }
    fn ushr(mut self, a: Value, b: Value) -> Value { self.bld().op2(9, a, b) }
    fn sshr(mut self, a: Value, b: Value) -> Value { self.bld().op2(10, a, b) }
    // immediate forms: the immediate is sign-extended and wrapped to the type of the first operand
    fn iadd_imm(mut self, a: Value, imm: i64) -> Value { self.bld().op2_imm(0, a, imm) }
    fn imul_imm(mut self, a: Value, imm: i64) -> Value { self.bld().op2_imm(2, a, imm) }
    fn udiv_imm(mut self, a: Value, imm: i64) -> Value { self.bld().op2_imm(3, a, imm) }
    fn urem_imm(mut self, a: Value, imm: i64) -> Value { self.bld().op2_imm(4, a, imm) }
    fn band_imm(mut self, a: Value, imm: i64) -> Value { self.bld().op2_imm(5, a, imm) }
    fn bor_imm(mut self, a: Value, imm: i64) -> Value { self.bld().op2_imm(6, a, imm) }
    fn bxor_imm(mut self, a: Value, imm: i64) -> Value { self.bld().op2_imm(7, a, imm) }
    fn ishl_imm(mut self, a: Value, imm: i64) -> Value { self.bld().op2_imm(8, a, imm) }
    fn ushr_imm(mut self, a: Value, imm: i64) -> Value { self.bld().op2_imm(9, a, imm) }
    fn sshr_imm(mut self, a: Value, imm: i64) -> Value { self.bld().op2_imm(10, a, imm) }
    /// imm - a
    fn irsub_imm(mut self, a: Value, imm: i64) -> Value { self.bld().op2_imm(11, a, imm) }
    fn sextend(mut self, ty: Type, a: Value) -> Value { self.bld().sext_to(ty, a) }
    fn trapnz(mut self, c: Value, code: TrapCode) -> Inst { self.bld().op_trapnz(c, code) }
    fn ineg(mut self, a: Value) -> Value { self.bld().op1(0, a) }
    fn bswap(mut self, a: Value) -> Value { self.bld().op1(1, a) }
    fn ireduce(mut self, ty: Type, a: Value) -> Value { self.bld().conv(ty, a, false) }
    fn uextend(mut self, ty: Type, a: Value) -> Value { self.bld().conv(ty, a, true) }
    fn select(mut self, c: Value, a: Value, b: Value) -> Value { self.bld().op_select(c, a, b) }
    fn icmp(mut self, cc: IntCC, a: Value, b: Value) -> Value { self.bld().op_icmp(cc, a, b, None) }
    fn icmp_imm(mut self, cc: IntCC, a: Value, imm: i64) -> Value { self.bld().op_icmp(cc, a, a, Some(imm)) }
    fn load(mut self, ty: Type, f: MemFlags, base: Value, off: i32) -> Value { self.bld().op_load(ty, f, base, off) }
    fn store(mut self, f: MemFlags, v: Value, base: Value, off: i32) -> Inst { self.bld().op_store(f, v, base, off) }
    fn atomic_rmw(mut self, ty: Type, f: MemFlags, op: AtomicRmwOp, addr: Value, v: Value) -> Value { self.bld().op_rmw(ty, f, op, addr, v) }
    fn stack_addr(mut self, ty: Type, ss: StackSlot, off: i32) -> Value { self.bld().op_stack_addr(ty, ss, off) }
    fn call(mut self, f: FuncRef, args: &[Value]) -> Inst { self.bld().op_call(f, args) }
    fn jump(mut self, b: Block, _args: &[Value]) -> Inst { self.bld().op_jump(b) }
    fn brif(mut self, c: Value, t: Block, _ta: &[Value], e: Block, _ea: &[Value]) -> Inst { self.bld().op_brif(c, t, e) }
    fn return_(mut self, vals: &[Value]) -> Inst { self.bld().op_return(vals) }
    fn trapz(mut self, c: Value, code: TrapCode) -> Inst { self.bld().op_trapz(c, code) }
}
pub trait BuilderCore {
    fn op_const(&mut self, ty: Type, v: u64) -> Value;
    fn op2(&mut self, k: u8, a: Value, b: Value) -> Value;
    fn op2_imm(&mut self, k: u8, a: Value, imm: i64) -> Value;
    fn sext_to(&mut self, ty: Type, a: Value) -> Value;
    fn op_trapnz(&mut self, c: Value, code: TrapCode) -> Inst;
    fn op1(&mut self, k: u8, a: Value) -> Value;
    fn conv(&mut self, ty: Type, a: Value, widen: bool) -> Value;
    fn op_select(&mut self, c: Value, a: Value, b: Value) -> Value;
    fn op_icmp(&mut self, cc: IntCC, a: Value, b: Value, imm: Option<i64>) -> Value;
    fn op_load(&mut self, ty: Type, f: MemFlags, base: Value, off: i32) -> Value;
    fn op_store(&mut self, f: MemFlags, v: Value, base: Value, off: i32) -> Inst;
    fn op_rmw(&mut self, ty: Type, f: MemFlags, op: AtomicRmwOp, addr: Value, v: Value) -> Value;
    fn op_stack_addr(&mut self, ty: Type, ss: StackSlot, off: i32) -> Value;
    fn op_call(&mut self, f: FuncRef, args: &[Value]) -> Inst;
    fn op_jump(&mut self, b: Block) -> Inst;
    fn op_brif(&mut self, c: Value, t: Block, e: Block) -> Inst;
    fn op_return(&mut self, vals: &[Value]) -> Inst;
    fn op_trapz(&mut self, c: Value, code: TrapCode) -> Inst;
}
impl<'s, 'a> InstBuilder for Ins<'s, 'a> { fn bld(&mut self) -> &mut dyn BuilderCore { self.b } }

fn sext(v: u64, t: Type) -> i64 { match t.0 { 8 => v as u8 as i8 as i64, 16 => v as u16 as i16 as i64, 32 => v as u32 as i32 as i64, _ => v as i64 } }

impl<'a> BuilderCore for FunctionBuilder<'a> {
    fn op_const(&mut self, ty: Type, v: u64) -> Value { self.check_open(); self.push(ty, v) }
    fn op2_imm(&mut self, k: u8, a: Value, imm: i64) -> Value {
        let t = self.ty(a);
        let c = self.op_const(t, (imm as u64) & mask(t));
        if k == 11 { self.op2(1, c, a) } else { self.op2(k, a, c) }
    }
    fn sext_to(&mut self, ty: Type, a: Value) -> Value {
        self.check_open();
        let t = self.ty(a);
        assert!(ty.0 > t.0, "cranelift verifier: sextend must widen");
        let x = sext(self.val(a), t) as u64;
        self.push(ty, x)
    }
    fn op_trapnz(&mut self, c: Value, _code: TrapCode) -> Inst { self.check_open(); if self.val(c) != 0 { self.trap(); } Inst(0) }
    fn op2(&mut self, k: u8, a: Value, b: Value) -> Value {
        self.check_open();
        let t = self.ty(a);
        assert!(self.ty(b) == t, "cranelift verifier: operand types differ");
        let (x, y) = (self.val(a), self.val(b));
        let w = t.0 as u64;
        let r = match k {
            0 => x.wrapping_add(y),
            1 => x.wrapping_sub(y),
            2 => unsafe { if t.0 == 32 { (ARITH.mul32)(x as u32, y as u32) as u64 } else if t.0 == 64 { (ARITH.mul64)(x, y) } else { x.wrapping_mul(y) } },
            3 => { if y == 0 { self.trap(); 0 } else { unsafe { if t.0 == 32 { (ARITH.div32)(x as u32, y as u32) as u64 } else if t.0 == 64 { (ARITH.div64)(x, y) } else { x / y } } } }
            4 => { if y == 0 { self.trap(); 0 } else { unsafe { if t.0 == 32 { (ARITH.rem32)(x as u32, y as u32) as u64 } else if t.0 == 64 { (ARITH.rem64)(x, y) } else { x % y } } } }
            5 => x & y,
            6 => x | y,
            7 => x ^ y,
            // shift counts are taken modulo the width of the shifted type
            8 => x << (y % w),
            9 => x >> (y % w),
            _ => (sext(x, t) >> (y % w)) as u64,
        };
        self.push(t, r)
    }
    fn op1(&mut self, k: u8, a: Value) -> Value {
        self.check_open();
        let t = self.ty(a);
        let x = self.val(a);
        let r = if k == 0 { 0u64.wrapping_sub(x) } else { match t.0 { 16 => (x as u16).swap_bytes() as u64, 32 => (x as u32).swap_bytes() as u64, 64 => x.swap_bytes(), _ => { assert!(false, "cranelift verifier: bswap needs at least 16 bits"); 0 } } };
        self.push(t, r)
    }
    fn conv(&mut self, ty: Type, a: Value, widen: bool) -> Value {
        self.check_open();
        let t = self.ty(a);
        if widen { assert!(ty.0 > t.0, "cranelift verifier: uextend must widen"); } else { assert!(ty.0 < t.0, "cranelift verifier: ireduce must narrow"); }
        let x = self.val(a);
        self.push(ty, x)
    }
    fn op_select(&mut self, c: Value, a: Value, b: Value) -> Value {
        self.check_open();
        let t = self.ty(a);
        assert!(self.ty(b) == t, "cranelift verifier: select operand types differ");
        let r = if self.val(c) != 0 { self.val(a) } else { self.val(b) };
        self.push(t, r)
    }
    fn op_icmp(&mut self, cc: IntCC, a: Value, b: Value, imm: Option<i64>) -> Value {
        self.check_open();
        let t = self.ty(a);
        let x = self.val(a);
        let y = match imm { Some(i) => (i as u64) & mask(t), None => { assert!(self.ty(b) == t, "cranelift verifier: icmp operand types differ"); self.val(b) } };
        let (sx, sy) = (sext(x, t), sext(y, t));
        let r = match cc {
            IntCC::Equal => x == y, IntCC::NotEqual => x != y,
            IntCC::UnsignedLessThan => x < y, IntCC::UnsignedGreaterThanOrEqual => x >= y, IntCC::UnsignedGreaterThan => x > y, IntCC::UnsignedLessThanOrEqual => x <= y,
            IntCC::SignedLessThan => sx < sy, IntCC::SignedGreaterThanOrEqual => sx >= sy, IntCC::SignedGreaterThan => sx > sy, IntCC::SignedLessThanOrEqual => sx <= sy,
        };
        self.push(I8, r as u64)
    }
    fn op_load(&mut self, ty: Type, f: MemFlags, base: Value, off: i32) -> Value {
        self.check_open();
        assert!(f.endian == Some(Endianness::Little), "load must be little-endian");
        let addr = self.val(base).wrapping_add(off as i64 as u64);
        self.t.access = Access::Load { addr, width: ty.bytes() as u8 };
        if self.t.naccess < 250 { self.t.naccess += 1; }
        let d = unsafe { ORACLE.load_data };
        self.push(ty, d)
    }
    fn op_store(&mut self, f: MemFlags, v: Value, base: Value, off: i32) -> Inst {
        self.check_open();
        assert!(f.endian == Some(Endianness::Little), "store must be little-endian");
        let addr = self.val(base).wrapping_add(off as i64 as u64);
        let t = self.ty(v);
        self.t.access = Access::Store { addr, width: t.bytes() as u8, val: self.val(v) };
        if self.t.naccess < 250 { self.t.naccess += 1; }
        Inst(0)
    }
    fn op_rmw(&mut self, ty: Type, f: MemFlags, op: AtomicRmwOp, addr: Value, v: Value) -> Value {
        self.check_open();
        assert!(op == AtomicRmwOp::Add, "stub: only atomic add is modelled");
        assert!(self.ty(v) == ty, "cranelift verifier: atomic_rmw operand type differs from the access type");
        let a = self.val(addr);
        self.t.access = Access::AtomicAdd { addr: a, width: ty.bytes() as u8, val: self.val(v) };
        if self.t.naccess < 250 { self.t.naccess += 1; }
        let d = unsafe { ORACLE.load_data };
        self.push(ty, d)
    }
    fn op_stack_addr(&mut self, ty: Type, _ss: StackSlot, off: i32) -> Value { self.check_open(); let b = self.t.stack_base; self.push(ty, b.wrapping_add(off as i64 as u64)) }
    fn op_call(&mut self, f: FuncRef, args: &[Value]) -> Inst {
        self.check_open();
        assert!(args.len() == 5, "helper signature has five parameters");
        let a = [self.val(args[0]), self.val(args[1]), self.val(args[2]), self.val(args[3]), self.val(args[4])];
        self.t.call = Some((f.0, a));
        if self.t.ncalls < 250 { self.t.ncalls += 1; }
        let r = unsafe { ORACLE.call_ret };
        self.results = [self.push(I64, r)];
        Inst(1)
    }
    fn op_jump(&mut self, b: Block) -> Inst { self.terminate(Term::Jump(b.0)); Inst(0) }
    fn op_brif(&mut self, c: Value, t: Block, e: Block) -> Inst { let taken = self.val(c) != 0; self.terminate(Term::Brif { taken, then_b: t.0, else_b: e.0 }); Inst(0) }
    fn op_return(&mut self, vals: &[Value]) -> Inst { let v = self.val(vals[0]); self.terminate(Term::Return(v)); Inst(0) }
    fn op_trapz(&mut self, c: Value, _code: TrapCode) -> Inst { self.check_open(); if self.val(c) == 0 { self.trap(); } Inst(0) }
}

// ------------------------------------------------------------------ isa / settings / module shells
#[derive(Clone)]
pub struct OwnedTargetIsa;
impl OwnedTargetIsa {
    pub fn pointer_type(&self) -> Type { I64 }
    pub fn default_call_conv(&self) -> CallConv { CallConv::SystemV }
    pub fn endianness(&self) -> Endianness { Endianness::Little }
}
pub mod settings {
    pub struct Builder;
    pub struct Flags;
    pub struct SetError;
    impl core::fmt::Debug for SetError { fn fmt(&self, f: &mut core::fmt::Formatter<'_>) -> core::fmt::Result { f.write_str("SetError") } }
    impl Flags { pub fn new(_b: Builder) -> Self { Flags } }
    pub fn builder() -> Builder { Builder }
    pub trait Configurable { fn set(&mut self, name: &str, value: &str) -> Result<(), SetError>; fn enable(&mut self, name: &str) -> Result<(), SetError>; }
    impl Configurable for Builder { fn set(&mut self, _n: &str, _v: &str) -> Result<(), SetError> { Ok(()) } fn enable(&mut self, _n: &str) -> Result<(), SetError> { Ok(()) } }
}
pub struct IsaBuilder;
pub struct CodegenError;
impl core::fmt::Debug for CodegenError { fn fmt(&self, f: &mut core::fmt::Formatter<'_>) -> core::fmt::Result { f.write_str("CodegenError") } }
impl IsaBuilder { pub fn finish(self, _f: settings::Flags) -> Result<OwnedTargetIsa, CodegenError> { Ok(OwnedTargetIsa) } }
pub fn native_builder() -> Result<IsaBuilder, &'static str> { Ok(IsaBuilder) }

pub struct Context { pub func: Function }
pub struct ModuleError;
impl core::fmt::Debug for ModuleError { fn fmt(&self, f: &mut core::fmt::Formatter<'_>) -> core::fmt::Result { f.write_str("ModuleError") } }
// ---- symbol names: the link between JITBuilder::symbol (where a helper's address is registered) and
// Module::declare_function(.., Linkage::Import, ..) (where the function body imports it) is the NAME.  Names are
// rendered exactly: literal text plus one integer placeholder `{}` / `{:x}` / `{:#x}` / `{:X}` / `{:o}`.
pub const NAMELEN: usize = 24;
/// a rendered name (only computed when two names with DIFFERENT templates have to be compared)
#[derive(Clone, Copy)]
pub struct Rendered { pub b: [u8; NAMELEN], pub len: usize }
/// a symbol name: template literal + its integer argument.  Two names built from the SAME template are equal iff
/// their arguments are (integer rendering is injective) - the cheap, exact path taken by code whose two sites agree;
/// names built from different templates are compared by their exact rendering.
#[derive(Clone, Copy)]
pub struct Name { pub tmpl: &'static str, pub arg: Option<u64> }
fn same_str(a: &str, b: &str) -> bool {
    let (x, y) = (a.as_bytes(), b.as_bytes());
    if x.len() != y.len() { return false; }
    let mut ok = true;
    let mut k = 0;
    while k < x.len() { if x[k] != y[k] { ok = false; } k += 1; }
    ok
}
/// set by the harness from a fact the extractor establishes on the text of cranelift.rs: every symbol name with an
/// argument is built from one and the same template literal.  Then names with arguments are equal iff their
/// arguments are, and no rendering is needed (the exact, cheap path).  Otherwise names are rendered and compared.
pub static mut NAME_TEMPLATES_AGREE: bool = false;
impl PartialEq for Name {
    fn eq(&self, o: &Name) -> bool {
        if unsafe { NAME_TEMPLATES_AGREE } {
            return match (self.arg, o.arg) { (Some(a), Some(b)) => a == b, (None, None) => same_str(self.tmpl, o.tmpl), _ => false };
        }
        if same_str(self.tmpl, o.tmpl) { return self.arg == o.arg; }
        let (p, q) = (render(self.tmpl, self.arg), render(o.tmpl, o.arg));
        if p.len != q.len { return false; }
        let mut ok = true;
        let mut k = 0;
        while k < NAMELEN { if k < p.len && p.b[k] != q.b[k] { ok = false; } k += 1; }
        ok
    }
}
/// what the shadowed `format!` evaluates to: the template literal and its first argument as an integer
pub struct FmtRecord { pub tmpl: &'static str, pub arg: Option<u64> }
pub trait FmtArg { fn key(&self) -> u64; }
macro_rules! fmt_arg { ($($t:ty),*) => { $( impl FmtArg for $t { fn key(&self) -> u64 { *self as u64 } } )* }; }
fmt_arg!(u8, u16, u32, u64, usize, i8, i16, i32, i64, isize);
impl<T: FmtArg + ?Sized> FmtArg for &T { fn key(&self) -> u64 { (**self).key() } }
impl From<FmtRecord> for String { fn from(_f: FmtRecord) -> String { String::new() } }
fn push(n: &mut Rendered, c: u8) { if n.len < NAMELEN { n.b[n.len] = c; n.len += 1; } }
fn push_num(n: &mut Rendered, v: u64, radix: u64, upper: bool) {
    // digits of a value below 2^32 (helper ids, instruction indices); larger values are clipped to 32 bits
    let v = v & 0xffff_ffff;
    let mut digits = [0u8; 11];
    let mut k = 0;
    let mut x = v;
    let mut i = 0;
    while i < 11 {
        if i == 0 || x != 0 { let d = (x % radix) as u8; digits[k] = if d < 10 { b'0' + d } else if upper { b'A' + d - 10 } else { b'a' + d - 10 }; k += 1; x /= radix; }
        i += 1;
    }
    while k > 0 { k -= 1; push(n, digits[k]); }
}
pub fn render(tmpl: &str, arg: Option<u64>) -> Rendered {
    let t = tmpl.as_bytes();
    let mut n = Rendered { b: [0; NAMELEN], len: 0 };
    let mut i = 0;
    let mut used = false;
    while i < t.len() {
        if t[i] == b'{' {
            // placeholder: up to the closing brace
            let mut j = i + 1;
            let (mut radix, mut alt, mut upper) = (10u64, false, false);
            while j < t.len() && t[j] != b'}' {
                match t[j] { b'x' => radix = 16, b'X' => { radix = 16; upper = true; } b'o' => radix = 8, b'b' => radix = 2, b'#' => alt = true, _ => {} }
                j += 1;
            }
            match (arg, used) {
                (Some(v), false) => {
                    if alt && radix == 16 { push(&mut n, b'0'); push(&mut n, b'x'); }
                    if radix == 2 { push(&mut n, b'?'); } else { push_num(&mut n, v, radix, upper); }
                    used = true;
                }
                _ => push(&mut n, b'?'),
            }
            i = j + 1;
        } else {
            push(&mut n, t[i]);
            i += 1;
        }
    }
    n
}
pub trait AsName { fn name(&self) -> Name; }
impl AsName for FmtRecord { fn name(&self) -> Name { Name { tmpl: self.tmpl, arg: self.arg } } }
impl AsName for str { fn name(&self) -> Name { Name { tmpl: leak(self), arg: None } } }
pub trait IntoName { fn into_name(self) -> Name; }
impl IntoName for FmtRecord { fn into_name(self) -> Name { Name { tmpl: self.tmpl, arg: self.arg } } }
impl IntoName for &'static str { fn into_name(self) -> Name { Name { tmpl: self, arg: None } } }
/// plain string names are literals in the code under verification
fn leak(s: &str) -> &'static str { unsafe { core::mem::transmute::<&str, &'static str>(s) } }

pub const MAXSYM: usize = 4;
pub trait Module {
    fn declare_function<N: AsName + ?Sized>(&mut self, name: &N, linkage: Linkage, sig: &Signature) -> Result<FuncId, ModuleError>;
    fn make_context(&self) -> Context;
    fn declare_func_in_func(&mut self, id: FuncId, f: &mut Function) -> FuncRef;
    fn define_function(&mut self, id: FuncId, ctx: &mut Context) -> Result<(), ModuleError>;
    fn clear_context(&self, ctx: &mut Context);
    fn finalize_definitions(&mut self) -> Result<(), ModuleError>;
}
pub struct JITBuilder { pub nsym: usize, pub sym: [Option<(Name, usize)>; MAXSYM] }
impl JITBuilder {
    pub fn with_isa(_isa: OwnedTargetIsa, _names: LibcallNames) -> Self { JITBuilder { nsym: 0, sym: [None; MAXSYM] } }
    pub fn symbol<K: IntoName>(&mut self, name: K, ptr: *const u8) -> &mut Self {
        assert!(self.nsym < MAXSYM, "stub: symbol table full");
        self.sym[self.nsym] = Some((name.into_name(), ptr as usize));
        self.nsym += 1;
        self
    }
}
pub struct LibcallNames;
pub fn default_libcall_names() -> LibcallNames { LibcallNames }
pub struct JITModule { pub next: u32, pub defined: bool, pub nsym: usize, pub sym: [Option<(Name, usize)>; MAXSYM], pub imports: [Option<Name>; 8] }
impl JITModule {
    pub fn new(b: JITBuilder) -> Self { JITModule { next: 0, defined: false, nsym: b.nsym, sym: b.sym, imports: [None; 8] } }
    pub fn get_finalized_function(&self, _id: FuncId) -> *const u8 { core::ptr::null() }
    pub unsafe fn free_memory(self) {}
    /// address an imported function resolves to: the LAST symbol registered under exactly its name.
    /// (Written with concrete loop indices only, so that comparing two names built from the same template
    /// literal stays a comparison of their arguments for the model checker.)
    pub fn resolve(&self, id: u32) -> Option<usize> {
        let mut r = None;
        let mut k = 0;
        while k < 8 {
            if k as u32 == id {
                if let Some(want) = self.imports[k] {
                    let mut j = 0;
                    while j < MAXSYM {
                        if j < self.nsym { if let Some((n, p)) = self.sym[j] { if n == want { r = Some(p); } } }
                        j += 1;
                    }
                }
            }
            k += 1;
        }
        r
    }
}
impl Module for JITModule {
    fn declare_function<N: AsName + ?Sized>(&mut self, name: &N, l: Linkage, _s: &Signature) -> Result<FuncId, ModuleError> {
        assert!((self.next as usize) < 8, "stub: function table full");
        if l == Linkage::Import { self.imports[self.next as usize] = Some(name.name()); }
        self.next += 1;
        Ok(FuncId(self.next - 1))
    }
    fn make_context(&self) -> Context { Context { func: Function { sig: Signature { params: Vec::new(), returns: Vec::new(), call_conv: CallConv::SystemV } } } }
    fn declare_func_in_func(&mut self, id: FuncId, _f: &mut Function) -> FuncRef { FuncRef(id.0) }
    /// Cranelift's verifier rejects a function in which a referenced block is never filled:
    /// the obligation "every block is terminated exactly once" is checked by the harness on TRACE.
    fn define_function(&mut self, _id: FuncId, _ctx: &mut Context) -> Result<(), ModuleError> { self.defined = true; Ok(()) }
    fn clear_context(&self, _ctx: &mut Context) {}
    /// the JIT linker panics when an imported name was never registered as a symbol
    fn finalize_definitions(&mut self) -> Result<(), ModuleError> {
        let mut k = 0;
        while k < 8 { if (k as u32) < self.next && self.imports[k].is_some() { assert!(self.resolve(k as u32).is_some(), "cranelift: can't resolve symbol (an imported helper name was never registered)"); } k += 1; }
        Ok(())
    }
}
