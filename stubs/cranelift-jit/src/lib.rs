pub use clif_core::{JITBuilder, JITModule};
