pub use clif_core::{default_libcall_names, FuncId, Linkage, Module};
