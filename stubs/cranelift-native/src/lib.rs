pub fn builder() -> Result<clif_core::IsaBuilder, &'static str> { clif_core::native_builder() }
