//! stub: see clif-core
pub mod entity { pub use clif_core::EntityRef; }
pub mod ir {
    pub mod condcodes { pub use clif_core::IntCC; }
    pub mod types { pub use clif_core::{I16, I32, I64, I8}; }
    pub use clif_core::{AbiParam, AtomicRmwOp, Block, Endianness, FuncRef, Function, InstBuilder, MemFlags, Signature, SourceLoc, StackSlotData, StackSlotKind, TrapCode, Type, UserFuncName, Value};
}
pub mod isa { pub use clif_core::OwnedTargetIsa; }
pub mod settings { pub use clif_core::settings::*; }
