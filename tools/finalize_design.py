#!/usr/bin/env python3
"""Regenerate the detection table of DESIGN.md (section 0.4) from seeded/*/detection."""
import os
import re
import subprocess
V = os.path.dirname(os.path.dirname(os.path.abspath(__file__)))
tab = subprocess.run(['python3', os.path.join(V, 'tools/seeded_table.py')], capture_output=True, text=True).stdout
p = os.path.join(V, 'DESIGN.md')
s = open(p).read()
s = re.sub(r'<!-- DETECTION-TABLE-BEGIN -->.*?<!-- DETECTION-TABLE-END -->', lambda m: '<!-- DETECTION-TABLE-BEGIN -->\n' + tab + '<!-- DETECTION-TABLE-END -->', s, flags=re.S)
open(p, 'w').write(s)
print('table rows:', tab.count('\n') - 2)
