#!/bin/bash
# tools/seeded_matrix.sh <seeded-id> <property>... : apply the seeded change to a SCRATCH worktree of /repo
# (never to /repo), run the named checks against it with a scratch work directory, record the outcome.
set -u
ID=$1; shift
S=/tmp/mut/$ID
mkdir -p /tmp/mut
git -C /repo worktree add -q --detach $S/repo HEAD || exit 2
git -C $S/repo apply /verif/seeded/$ID/patch.diff || { echo "$ID patch does not apply"; git -C /repo worktree remove --force $S/repo; exit 2; }
mkdir -p $S/work; cp /repo/Cargo.lock $S/repo/Cargo.lock
res=""
for p in "$@"; do
  out=$(cd /verif && VERIF_REPO=$S/repo VERIF_WORK=$S/work ./check $p 2>&1); rc=$?
  echo "---- $ID / $p rc=$rc"; echo "$out" | grep -E "VIOLATION|failed obligation|UNDECIDED|undecided:|^property=" | cut -c1-300 | head -8
  res="$res $p:rc=$rc"
  mkdir -p /verif/seeded/$ID/detection
  echo "$out" | grep -E "VIOLATION|failed obligation|UNDECIDED|undecided:|^property=" | cut -c1-400 > /verif/seeded/$ID/detection/$p.txt
  echo "exit=$rc" >> /verif/seeded/$ID/detection/$p.txt
done
git -C /repo worktree remove --force $S/repo; rm -rf $S
echo "RESULT $ID$res"
