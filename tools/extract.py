#!/usr/bin/env python3
"""Mechanical extraction of Rust items from /repo's working tree.

A brace/paren/string/comment-aware scanner (no external parser is available
offline).  Items are located BY NAME, loops BY ORDINAL inside a named function,
match arms by splitting the top level of a `match` block.  Nothing here edits
text: every function returns verbatim spans of the source (plus their offsets
and SHA-256), and the few token rewrites the harness generators apply are
listed, counted and reported by `Rewriter`.

If an anchor cannot be found `AnchorLost` is raised; the driver turns that
into exit code 2 ("undecided"), never into a VIOLATION.
"""
import hashlib
import re


class AnchorLost(Exception):
    pass


def sha(text):
    return hashlib.sha256(text.encode()).hexdigest()


def code_mask(src):
    """mask[i] is True when src[i] is code (not inside comment/string/char)."""
    n = len(src)
    mask = [True] * n
    i = 0
    while i < n:
        c = src[i]
        if c == '/' and i + 1 < n and src[i + 1] == '/':
            j = src.find('\n', i)
            if j < 0:
                j = n
            for k in range(i, j):
                mask[k] = False
            i = j
        elif c == '/' and i + 1 < n and src[i + 1] == '*':
            depth = 1
            j = i + 2
            while j < n and depth > 0:
                if src.startswith('/*', j):
                    depth += 1
                    j += 2
                elif src.startswith('*/', j):
                    depth -= 1
                    j += 2
                else:
                    j += 1
            for k in range(i, j):
                mask[k] = False
            i = j
        elif c == '"':
            j = i + 1
            while j < n and src[j] != '"':
                if src[j] == '\\':
                    j += 1
                j += 1
            for k in range(i + 1, min(j, n)):
                mask[k] = False
            i = j + 1
        elif c == 'r' and re.match(r'r#*"', src[i:i + 8]) and (i == 0 or not (src[i - 1].isalnum() or src[i - 1] == '_')):
            m = re.match(r'r(#*)"', src[i:])
            hashes = m.group(1)
            end = src.find('"' + hashes, i + len(m.group(0)))
            if end < 0:
                end = n
            for k in range(i + len(m.group(0)), end):
                mask[k] = False
            i = end + 1 + len(hashes)
        elif c == "'":
            # char literal or lifetime
            m = re.match(r"'(\\.[^']*|[^\\'])'", src[i:])
            if m:
                for k in range(i + 1, i + len(m.group(0)) - 1):
                    mask[k] = False
                i += len(m.group(0))
            else:
                i += 1
        else:
            i += 1
    return mask


OPEN = {'{': '}', '(': ')', '[': ']'}
CLOSE = {v: k for k, v in OPEN.items()}


def match_close(src, mask, i):
    """src[i] is an opening bracket; return index of its matching close."""
    assert src[i] in OPEN, (src[i], i)
    stack = []
    n = len(src)
    j = i
    while j < n:
        if mask[j]:
            c = src[j]
            if c in OPEN:
                stack.append(c)
            elif c in CLOSE:
                if not stack or stack[-1] != CLOSE[c]:
                    raise AnchorLost('unbalanced bracket at %d' % j)
                stack.pop()
                if not stack:
                    return j
        j += 1
    raise AnchorLost('no closing bracket for %d' % i)


class Source:
    def __init__(self, path):
        self.path = path
        with open(path) as f:
            self.src = f.read()
        self.mask = code_mask(self.src)

    def line_of(self, off):
        return self.src.count('\n', 0, off) + 1

    def find_code(self, pattern, start=0, end=None):
        """first regex match whose start is in code."""
        end = len(self.src) if end is None else end
        for m in re.finditer(pattern, self.src[:end]):
            if m.start() >= start and self.mask[m.start()]:
                return m
        return None

    def find_all_code(self, pattern, start=0, end=None):
        end = len(self.src) if end is None else end
        return [m for m in re.finditer(pattern, self.src[:end])
                if m.start() >= start and self.mask[m.start()]]

    def fn_item(self, name, start=0, end=None, nth=0):
        """Return dict(start, sig_start, body_open, body_close, end) for `fn name`.
        `start` includes preceding attributes and doc comments."""
        ms = self.find_all_code(r'\bfn\s+' + re.escape(name) + r'\s*[<(]', start, end)
        if len(ms) <= nth:
            raise AnchorLost('fn %s not found in %s' % (name, self.path))
        m = ms[nth]
        # signature start: walk back over qualifiers (pub, const, unsafe, extern "C", pub(crate))
        line_start = self.src.rfind('\n', 0, m.start()) + 1
        sig_start = line_start
        # include attributes / doc comments directly above
        item_start = sig_start
        while True:
            prev_end = item_start - 1
            if prev_end <= 0:
                break
            prev_start = self.src.rfind('\n', 0, prev_end) + 1
            line = self.src[prev_start:prev_end].strip()
            if line.startswith('#[') or line.startswith('///'):
                item_start = prev_start
            else:
                break
        # body open: first '{' in code after the parameter list, at depth 0
        i = m.end() - 1
        if self.src[i] == '<':
            # generic params: find '(' after matching '>'
            depth = 0
            while True:
                if self.mask[i]:
                    if self.src[i] == '<':
                        depth += 1
                    elif self.src[i] == '>' and self.src[i - 1] != '-':
                        depth -= 1
                        if depth == 0:
                            break
                i += 1
            i = self.src.index('(', i)
        pclose = match_close(self.src, self.mask, i)
        j = pclose + 1
        while not (self.mask[j] and self.src[j] in '{;'):
            j += 1
        if self.src[j] == ';':
            raise AnchorLost('fn %s has no body' % name)
        bclose = match_close(self.src, self.mask, j)
        return dict(name=name, start=item_start, sig_start=sig_start, body_open=j,
                    body_close=bclose, end=bclose + 1)

    def item_text(self, it):
        return self.src[it['start']:it['end']]

    def fn_text(self, name, **kw):
        it = self.fn_item(name, **kw)
        return self.src[it['sig_start']:it['end']]

    def fn_body(self, name, **kw):
        it = self.fn_item(name, **kw)
        return self.src[it['body_open'] + 1:it['body_close']]

    def block_after(self, pattern, start=0, end=None, nth=0):
        """Find nth code match of pattern, then the first '{' after it; return
        (match_start, open_idx, close_idx)."""
        ms = self.find_all_code(pattern, start, end)
        if len(ms) <= nth:
            raise AnchorLost('pattern %r (#%d) not found in %s' % (pattern, nth, self.path))
        m = ms[nth]
        j = m.end() - 1 if self.src[m.end() - 1] == '{' else m.end()
        # skip to '{' at bracket depth 0 relative to here
        depth = 0
        while True:
            if j >= len(self.src):
                raise AnchorLost('no block after %r' % pattern)
            if self.mask[j]:
                c = self.src[j]
                if c in '([':
                    depth += 1
                elif c in ')]':
                    depth -= 1
                elif c == '{' and depth == 0:
                    break
            j += 1
        return m.start(), j, match_close(self.src, self.mask, j)

    def loops_in(self, start, end):
        """top-level-first list of (kw_start, open, close) for while/for/loop between offsets."""
        out = []
        for m in self.find_all_code(r'\b(while|for|loop)\b', start, end):
            try:
                _, o, c = self.block_after(r'\b(while|for|loop)\b', m.start(), end, 0)
            except AnchorLost:
                continue
            out.append((m.start(), o, c))
        return out

    def struct_or_impl(self, header_pattern, start=0, nth=0):
        s, o, c = self.block_after(header_pattern, start, None, nth)
        line_start = self.src.rfind('\n', 0, s) + 1
        item_start = line_start
        while True:
            prev_end = item_start - 1
            if prev_end <= 0:
                break
            prev_start = self.src.rfind('\n', 0, prev_end) + 1
            line = self.src[prev_start:prev_end].strip()
            if line.startswith('#[') or line.startswith('///'):
                item_start = prev_start
            else:
                break
        return self.src[item_start:c + 1]


def split_match_arms(text):
    """text = inside of a `match x { ... }` block (without the outer braces).
    Returns list of dict(attrs, pat, guard, body, raw).  Verbatim pieces."""
    mask = code_mask(text)
    n = len(text)
    arms = []
    i = 0
    while i < n:
        # skip whitespace and comments
        while i < n and (text[i].isspace() or not mask[i] or (text[i] == '/' and i + 1 < n and text[i + 1] in '/*')):
            if text[i] == '/' and mask[i] and text[i + 1] == '/':
                j = text.find('\n', i)
                i = n if j < 0 else j
            elif text[i] == '/' and mask[i] and text[i + 1] == '*':
                j = text.find('*/', i)
                i = n if j < 0 else j + 2
            else:
                i += 1
        if i >= n:
            break
        arm_start = i
        attrs = []
        while text.startswith('#[', i):
            c = match_close(text, mask, i + 1)
            attrs.append(text[i:c + 1])
            i = c + 1
            while i < n and text[i].isspace():
                i += 1
        # pattern up to '=>' at depth 0
        depth = 0
        j = i
        while j < n:
            if mask[j]:
                ch = text[j]
                if ch in OPEN:
                    depth += 1
                elif ch in CLOSE:
                    depth -= 1
                elif ch == '=' and depth == 0 and text[j + 1] == '>':
                    break
            j += 1
        if j >= n:
            raise AnchorLost('match arm without => near: %r' % text[i:i + 60])
        patguard = text[i:j]
        mg = re.search(r'\bif\b', patguard)
        if mg and code_mask(patguard)[mg.start()]:
            pat = patguard[:mg.start()].strip()
            guard = patguard[mg.end():].strip()
        else:
            pat, guard = patguard.strip(), None
        k = j + 2
        while k < n and text[k].isspace():
            k += 1
        if text[k] == '{':
            c = match_close(text, mask, k)
            body = text[k:c + 1]
            e = c + 1
            # optional trailing comma
            m2 = re.match(r'\s*,', text[e:])
            if m2:
                e += m2.end()
        else:
            depth = 0
            e = k
            while e < n:
                if mask[e]:
                    ch = text[e]
                    if ch in OPEN:
                        depth += 1
                    elif ch in CLOSE:
                        depth -= 1
                    elif ch == ',' and depth == 0:
                        break
                e += 1
            body = text[k:e].strip()
            e += 1
        arms.append(dict(attrs=attrs, pat=pat, guard=guard, body=body, raw=text[arm_start:e]))
        i = e
    return arms


def ebpf_consts(ebpf_src):
    """Evaluate `pub const NAME: T = expr;` in ebpf.rs to integers (Verus does
    not fold `A | B | C`, and the generators enumerate opcodes from here)."""
    env = {}
    for m in re.finditer(r'pub const\s+(\w+)\s*:\s*(\w+)\s*=\s*([^;]+);', ebpf_src):
        name, ty, expr = m.group(1), m.group(2), m.group(3)
        expr = re.sub(r'\bas\s+\w+', '', expr)
        expr = re.sub(r'(\d)_(\d)', r'\1\2', expr)
        try:
            env[name] = int(eval(expr, {'__builtins__': {}}, dict(env)))
        except Exception:
            pass
    return env


class Rewriter:
    """Applies the listed token rewrites and counts them for the evidence."""

    def __init__(self):
        self.counts = {}

    def sub(self, label, pattern, repl, text, expect_min=0):
        new, k = re.subn(pattern, repl, text)
        self.counts[label] = self.counts.get(label, 0) + k
        if k < expect_min:
            raise AnchorLost('rewrite %s applied %d times, expected >= %d' % (label, k, expect_min))
        return new


# ----------------------------------------------------------------------------- cfg evaluation
def eval_cfg(pred, features, target=('target_has_atomic="64"', 'unix')):
    """Evaluate the inside of #[cfg(...)] for a feature set.  Supports feature = "x", not(..),
    all(..), any(..), windows, unix, test, kani, target_has_atomic = "64"."""
    pred = pred.strip()
    m = re.fullmatch(r'(not|all|any)\((.*)\)', pred, re.S)
    if m:
        op, inner = m.group(1), m.group(2)
        parts, depth, cur = [], 0, ''
        for ch in inner:
            if ch == '(':
                depth += 1
            elif ch == ')':
                depth -= 1
            if ch == ',' and depth == 0:
                parts.append(cur)
                cur = ''
            else:
                cur += ch
        if cur.strip():
            parts.append(cur)
        vals = [eval_cfg(p, features, target) for p in parts]
        if op == 'not':
            return not vals[0]
        return all(vals) if op == 'all' else any(vals)
    m = re.fullmatch(r'feature\s*=\s*"([^"]+)"', pred)
    if m:
        return m.group(1) in features
    norm = re.sub(r'\s+', '', pred)
    if norm in ('windows', 'test', 'kani'):
        return False
    if norm == 'unix':
        return True
    if norm == 'target_has_atomic="64"':
        return True
    raise AnchorLost('cfg predicate not understood: %r' % pred)


def cfg_strip(src, features):
    """Return `src` as the compiler sees it for `features`: every #[cfg(..)] attribute is removed,
    together with the item / statement / field / arm it guards when the predicate is false."""
    mask = code_mask(src)
    out = []
    i = 0
    n = len(src)
    removed = kept = 0
    while i < n:
        if mask[i] and src.startswith('#[cfg(', i):
            close = match_close(src, mask, i + 1)          # the ']' of the attribute
            pred = src[i + 6:close - 1]
            # `pred` ends before the ')' that precedes ']'
            j = close + 1
            keep = eval_cfg(pred, features)
            if keep:
                kept += 1
                i = j
                continue
            removed += 1
            # doc comments and attributes stacked ABOVE the cfg attribute belong to the removed item too
            text = ''.join(out)
            while True:
                ls = text.rstrip(' \t')
                if not ls.endswith('\n'):
                    break
                prev_start = ls.rfind('\n', 0, len(ls) - 1) + 1
                line = ls[prev_start:].strip()
                if line.startswith('///') or (line.startswith('#[') and line.endswith(']')):
                    text = ls[:prev_start]
                else:
                    break
            out = [text]
            # skip whitespace, comments and further attributes
            while True:
                while j < n and (src[j].isspace() or not mask[j]):
                    j += 1
                if src.startswith('//', j):
                    j = src.find('\n', j)
                    j = n if j < 0 else j
                    continue
                if src.startswith('#[', j):
                    j = match_close(src, mask, j + 1) + 1
                    continue
                break
            # skip the guarded thing
            head = src[j:j + 40]
            is_item = re.match(r'(pub(\([a-z]+\))?\s+)?(unsafe\s+)?(fn|impl|struct|enum|use|mod|extern|static|const|type|trait)\b', head) is not None
            is_field = re.match(r'(pub(\([a-z]+\))?\s+)?\w+\s*:', head) is not None
            depth = 0
            angle = 0
            while j < n:
                if mask[j]:
                    ch = src[j]
                    if ch in OPEN:
                        depth += 1
                    elif ch in CLOSE:
                        if depth == 0:
                            break  # end of the enclosing block: the guarded thing was the last one
                        depth -= 1
                        if depth == 0 and ch == '}':
                            k = j + 1
                            while k < n and src[k] in ' \t':
                                k += 1
                            if k < n and src[k] in ',;':
                                j = k
                            j += 1
                            break
                    elif is_field and ch == '<':
                        angle += 1
                    elif is_field and ch == '>' and src[j - 1] != '-' and angle > 0:
                        angle -= 1
                    elif ch == ';' and depth == 0:
                        j += 1
                        break
                    elif ch == ',' and depth == 0 and angle == 0 and not is_item:
                        j += 1
                        break
                j += 1
            i = j
            continue
        out.append(src[i])
        i += 1
    return ''.join(out), dict(cfg_sites_kept=kept, cfg_sites_removed=removed)
