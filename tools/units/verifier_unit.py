"""Unit verifier (Verus): the whole of src/verifier.rs against `well_formed`
(C06) plus the bridge lemmas C05 needs.  All six functions of the file are
taken verbatim; the generator
  * replaces every argument of `reject(..)` (format!/string literal) by the unit token `Msg`,
  * names the return value (`-> Result<(), Error>` becomes `-> (r: Result<(), Error>)`),
  * inserts requires/ensures between signature and body, and invariant/decreases
    between the header and the body of the first loop of `check`,
  * defines the constants of ebpf.rs as literals.
`reject` and `get_insn` are external_body with the contracts stated in
contracts/verifier_spec.vrs."""
import os
import re
import sys

sys.path.insert(0, os.path.dirname(os.path.dirname(os.path.abspath(__file__))))
from extract import Source, AnchorLost, Rewriter, ebpf_consts, sha, match_close, code_mask  # noqa: E402

VERIF = os.path.dirname(os.path.dirname(os.path.dirname(os.path.abspath(__file__))))

CONTRACTS = {
    'check_prog_len': """
    ensures r.is_ok() <==> (len_ok(prog@) && last_ok(prog@)),
""",
    'check_imm_endian': """
    ensures r.is_ok() <==> (insn.imm == 16 || insn.imm == 32 || insn.imm == 64),
""",
    'check_load_dw': """
    requires len_ok(prog@), insn_ptr + 1 < n_insns(prog@),
    ensures r.is_ok() <==> opc_at(prog@, insn_ptr + 1) == 0,
""",
    'check_jmp_offset': """
    requires len_ok(prog@), insn_ptr < n_insns(prog@),
    ensures r.is_ok() <==> ({
        let off = off_at(prog@, insn_ptr as int) as int;
        off != -1 && 0 <= insn_ptr + 1 + off < n_insns(prog@) && opc_at(prog@, insn_ptr + 1 + off) != 0
    }),
""",
    'check_registers': """
    ensures r.is_ok() <==> (insn.src <= 10 && (insn.dst <= 9 || (insn.dst == 10 && store))),
""",
    'check': """
    ensures r.is_ok() <==> well_formed(prog@),
""",
}

LOOP_INV = """
        invariant
            len_ok(prog@), last_ok(prog@),
            insn_ptr <= n_insns(prog@),
            wf_from(prog@, 0) == wf_from(prog@, insn_ptr as int),
        decreases n_insns(prog@) - insn_ptr,
    """

FNS = ['check_prog_len', 'check_imm_endian', 'check_load_dw', 'check_jmp_offset', 'check_registers', 'check']


def py_supported(opc):
    """Python port of spec/ebpf_sem.rs::supported (cross-checked against the Rust text by
    `replay supported-table`)."""
    cls, op, x = opc & 7, opc & 0xf0, (opc & 8) != 0
    if cls == 0:
        return opc in (0x18, 0x20, 0x28, 0x30, 0x38, 0x40, 0x48, 0x50, 0x58)
    if cls in (1, 2):
        return opc & 0xe0 == 0x60
    if cls == 3:
        return opc & 0xe0 == 0x60 or opc in (0xc3, 0xdb)
    if cls in (4, 7):
        if op == 0x80:
            return not x
        if op == 0xd0:
            return cls == 4
        return op <= 0xc0
    if cls == 5:
        if op == 0x00:
            return not x
        if op == 0x80:
            return True
        if op == 0x90:
            return not x
        return op <= 0xd0
    return op not in (0x00, 0x80, 0x90) and op <= 0xd0


def replace_reject_args(text, rw):
    mask = code_mask(text)
    out = []
    i = 0
    n = 0
    for m in re.finditer(r'\breject\(', text):
        if not mask[m.start()] or m.start() < i:
            continue
        o = m.end() - 1
        c = match_close(text, mask, o)
        out.append(text[i:o + 1] + 'Msg')
        i = c
        n += 1
    out.append(text[i:])
    rw.counts['reject(<message>) -> reject(Msg)'] = rw.counts.get('reject(<message>) -> reject(Msg)', 0) + n
    return ''.join(out)


def generate(repo, outdir):
    rw = Rewriter()
    s = Source(os.path.join(repo, 'src/verifier.rs'))
    with open(os.path.join(repo, 'src/ebpf.rs')) as f:
        consts_src = f.read()
    consts = ebpf_consts(consts_src)
    ctype = dict(re.findall(r'pub const\s+(\w+)\s*:\s*(\w+)\s*=', consts_src))
    const_lines = '\n'.join('    pub const %s: %s = %d;' % (k, ctype[k], v) for k, v in consts.items() if k in ctype)
    sup = [o for o in range(256) if py_supported(o) and o != 0x8d]
    stores = [o for o in sup if o & 7 in (2, 3)]
    jumps = [o for o in sup if o & 7 in (5, 6) and o not in (0x85, 0x95)]
    with open(os.path.join(VERIF, 'contracts/verifier_spec.vrs')) as f:
        spec = f.read()
    spec = spec.replace('{EBPF_CONSTS}', const_lines)
    spec = spec.replace('{SUPPORTED}', ' || '.join('o == %#04x' % o for o in sup))
    spec = spec.replace('{STORES}', ' || '.join('o == %#04x' % o for o in stores))
    spec = spec.replace('{JUMPS}', ' || '.join('o == %#04x' % o for o in jumps))
    hashes = {}
    fns_text = []
    for name in FNS:
        it = s.fn_item(name)
        text = s.src[it['sig_start']:it['end']]
        hashes['verifier.rs::' + name] = sha(text)
        body_off = it['body_open'] - it['sig_start']
        sig, body = text[:body_off], text[body_off:]
        sig2 = rw.sub('-> Result<(), Error>  =>  -> (r: Result<(), Error>)', r'->\s*Result<\(\),\s*Error>', '-> (r: Result<(), Error>)', sig, 1)
        body = replace_reject_args(body, rw)
        if name == 'check':
            # loop ordinal 0 of `check`: insert the invariant between header and body
            m = re.search(r'\bwhile\b', body)
            if not m:
                raise AnchorLost('no while loop in verifier::check')
            bm = code_mask(body)
            j = m.end()
            while not (bm[j] and body[j] == '{'):
                j += 1
            body = body[:j] + LOOP_INV + body[j:]
        fns_text.append('// ----- extracted: fn %s (verbatim body) + contract -----\n%s%s%s' % (name, sig2.rstrip() + '\n', CONTRACTS[name].strip('\n') + '\n', body))
    text = ('// GENERATED by /verif/tools/units/verifier_unit.py from /repo/src/verifier.rs - do not edit.\n'
            '#![allow(unused)]\nuse vstd::prelude::*;\nverus! {\n\n' + spec + '\n\n' + '\n\n'.join(fns_text) + '\n\n} // verus!\nfn main() {}\n')
    path = os.path.join(outdir, 'verifier.rs')
    with open(path, 'w') as f:
        f.write(text)
    scan = dict(external_body=len(re.findall(r'external_body', text)), assume=len(re.findall(r'\bassume\(', text)),
                admit=len(re.findall(r'\badmit\(', text)), uninterp=len(re.findall(r'\buninterp\b', text)))
    return dict(file=path,
                functions=FNS + ['lemma_walk', 'lemma_wf_reach', 'lemma_reach_trans', 'lemma_bridge', 'lemma_entry'],
                hashes=hashes, rewrites=dict(rw.counts), scan=scan, rlimit=60,
                sample=CONTRACTS['check'] + LOOP_INV,
                assumptions=['get_insn: external_body with the decode contract proved by Kani on the real function (unit codec, C17)',
                             'reject: external_body, ensures is_err (its two lines build an Err)',
                             'le_i16/le_i32 uninterpreted: the verifier only compares decoded fields, it never re-encodes them'])


if __name__ == '__main__':
    print(generate(sys.argv[1], sys.argv[2])['file'])
