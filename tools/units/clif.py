"""Unit clif (Kani): src/cranelift.rs compiled VERBATIM against the stub cranelift_*
crates under /verif/stubs (the assumed contract of the dependency), C04 / C11 / C12.

Nothing of cranelift.rs is rewritten; a harness child module is appended to the copy so
that it can name the crate-private CraneliftCompiler."""
import os
import re
import shutil
import sys

sys.path.insert(0, os.path.dirname(os.path.dirname(os.path.abspath(__file__))))
from extract import Source, AnchorLost, split_match_arms, ebpf_consts, sha, match_close  # noqa: E402

VERIF = os.path.dirname(os.path.dirname(os.path.dirname(os.path.abspath(__file__))))

CARGO = """[package]
name = "vclif"
version = "0.0.0"
edition = "2024"

[dependencies]
byteorder = {{ version = "1.5", default-features = false }}
clif-core = {{ path = "{s}/clif-core" }}
cranelift-codegen = {{ path = "{s}/cranelift-codegen" }}
cranelift-frontend = {{ path = "{s}/cranelift-frontend" }}
cranelift-jit = {{ path = "{s}/cranelift-jit" }}
cranelift-module = {{ path = "{s}/cranelift-module" }}
cranelift-native = {{ path = "{s}/cranelift-native" }}

[lints.rust]
unexpected_cfgs = {{ level = "allow" }}

[workspace]
"""


BOUNDED_CFG = """
// BOUNDED (3 instructions): block discipline for one concrete shape of opcodes and every offset the
// verifier accepts for it (including a jump back to instruction 0, dead code after ja, blocks reached only
// by fall-through).  One harness per shape.
fn cfg3(k0: u8, k1: u8, k2: u8) {
    crate::arith::reset();
    init_names_unused();
    let n = 3usize;
    let ops = [k0, k1, k2];
    let offs: [i16; 3] = kani::any();
    let mut prog = [0u8; 24];
    let mut k = 0;
    while k < 3 {
        let insn = ebpf::Insn { opc: ops[k], dst: 0, src: 0, off: offs[k], imm: 0 };
        let si = SInsn { opc: ops[k], dst: 0, src: 0, off: offs[k], imm: 0 };
        kani::assume(wf_facts(&si, k, n));
        let a = insn.to_array();
        let mut j = 0;
        while j < 8 { prog[8 * k + j] = a[j]; j += 1; }
        k += 1;
    }
    unsafe { ORACLE = Oracle { load_data: 0, call_ret: 0, params: [kani::any(), kani::any(), kani::any(), kani::any()], stack_base: kani::any(), init_vars: [0; 24] }; }
    let helpers: HashMap<u32, ebpf::Helper> = HashMap::new();
    let r = CraneliftCompiler::new(helpers).compile_function(&prog);
    assert!(r.is_ok(), "ensures: every verified 3-instruction program compiles");
    let t = unsafe { TRACE };
    let mut b = 0;
    while b < clif_core::MAXB {
        if (b as u32) < t.nblocks {
            let mut referenced = false;
            let mut c = 0;
            while c < clif_core::MAXB {
                match t.terms[c] { Term::Jump(x) => { if x as usize == b { referenced = true; } } Term::Brif { then_b, else_b, .. } => { if then_b as usize == b || else_b as usize == b { referenced = true; } } _ => {} }
                c += 1;
            }
            if referenced { assert!(t.switched[b] == 1 && t.term_count[b] == 1, "ensures: every block referenced by a terminator is switched to once and terminated once"); }
            if t.switched[b] > 0 { assert!(t.term_count[b] == 1, "ensures: every block that received instructions is terminated"); }
        }
        b += 1;
    }
}
"""


def opcodes_of(repo):
    s = Source(os.path.join(repo, 'src/cranelift.rs'))
    with open(os.path.join(repo, 'src/ebpf.rs')) as f:
        consts = ebpf_consts(f.read())
    it = s.fn_item('translate_program')
    mm = s.find_code(r'match\s+insn\.opc\s*\{', it['body_open'], it['body_close'])
    if not mm:
        raise AnchorLost('match insn.opc not found in translate_program')
    mo = mm.end() - 1
    mc = match_close(s.src, s.mask, mo)
    arms = split_match_arms(s.src[mo + 1:mc])
    ops = {}
    for a in arms:
        if a['pat'] == '_':
            continue
        for p in a['pat'].split('|'):
            m = re.fullmatch(r'ebpf::(\w+)', p.strip())
            if not m or m.group(1) not in consts:
                raise AnchorLost('unrecognised pattern %r in translate_program' % p)
            ops.setdefault(m.group(1), consts[m.group(1)])
    return s, ops


def generate(repo, outdir):
    s, ops = opcodes_of(repo)
    os.makedirs(os.path.join(outdir, 'src/cranelift'), exist_ok=True)
    with open(os.path.join(outdir, 'Cargo.toml'), 'w') as f:
        f.write(CARGO.format(s=os.path.join(VERIF, 'stubs')))
    os.makedirs(os.path.join(outdir, '.cargo'), exist_ok=True)
    with open(os.path.join(outdir, '.cargo/config.toml'), 'w') as f:
        f.write('[net]\noffline = true\n')
    # structural fact for the stub's name model: the templates of the `let name = format!(...)` statements (symbol
    # registration in new(), import in build_function_prelude) - do they all agree?
    name_tmpls = re.findall(r'let\s+name\s*=\s*format!\(\s*("(?:[^"\\]|\\.)*")\s*,', s.src)
    agree = len(name_tmpls) >= 2 and len(set(name_tmpls)) == 1
    with open(os.path.join(VERIF, 'harness/clif/lib_head.rs')) as f:
        head = f.read()
    with open(os.path.join(outdir, 'src/lib.rs'), 'w') as f:
        f.write(head + '\n/// extractor: templates of the helper symbol names in cranelift.rs: %s\npub const HELPER_NAME_TEMPLATES_AGREE: bool = %s;\n' % (', '.join(name_tmpls) or 'none found', 'true' if agree else 'false'))
    shutil.copy(os.path.join(VERIF, 'spec/arith_uf.rs'), os.path.join(outdir, 'src/arith.rs'))
    shutil.copy(os.path.join(VERIF, 'spec/ebpf_sem.rs'), os.path.join(outdir, 'src/spec.rs'))
    shutil.copy(os.path.join(repo, 'src/ebpf.rs'), os.path.join(outdir, 'src/ebpf.rs'))
    with open(os.path.join(outdir, 'src/cranelift.rs'), 'w') as f:
        f.write(s.src + '\n// ---- appended by /verif; nothing above this line is edited ----\n#[cfg(kani)]\npub mod harnesses;\n')
    with open(os.path.join(VERIF, 'harness/clif/harnesses.rs')) as f:
        hs = [f.read()]
    harnesses = []
    for name, val in sorted(ops.items(), key=lambda x: x[1]):
        if name == 'TAIL_CALL':
            continue
        hs.append('\n#[kani::proof]\n#[kani::unwind(%d)]\nfn clif_%s() { run_clif(%#04x); } // ebpf::%s\n' % (28 if name == 'CALL' else 14, name.lower(), val, name))  # CALL renders and compares symbol names (24 bytes)
        harnesses.append(dict(name='clif_' + name.lower(), kind='contract', opcode=name))
    harnesses.append(dict(name='clif_env_precondition_satisfiable', kind='cover'))
    harnesses.append(dict(name='clif_prelude', kind='contract'))
    harnesses.append(dict(name='clif_prepare_jump_blocks', kind='contract'))
    hs.append(BOUNDED_CFG)
    shapes = {'mov': 0xbf, 'ja': 0x05, 'jeq': 0x1d, 'exit': 0x95}
    quick_shapes = {('mov', 'jeq', 'exit'), ('ja', 'mov', 'exit'), ('jeq', 'mov', 'ja')}
    for a in shapes:
        for b in shapes:
            for c in ('exit', 'ja'):
                nm = 'bounded_clif_cfg3_%s_%s_%s' % (a, b, c)
                hs.append('\n#[kani::proof]\n#[kani::unwind(14)]\nfn %s() { cfg3(%#04x, %#04x, %#04x); }\n' % (nm, shapes[a], shapes[b], shapes[c]))
                harnesses.append(dict(name=nm, kind='bounded', heavy=(a, b, c) not in quick_shapes))
    with open(os.path.join(outdir, 'src/cranelift/harnesses.rs'), 'w') as f:
        f.write(''.join(hs))
    import hashlib
    stubs_hash = hashlib.sha256()
    for root, _, files in sorted(os.walk(os.path.join(VERIF, 'stubs'))):
        if 'target' in root:
            continue
        for fn in sorted(files):
            with open(os.path.join(root, fn), 'rb') as f:
                stubs_hash.update(f.read())
    return dict(prefix='cranelift::harnesses::', harness_file='src/cranelift/harnesses.rs', findings=[],
                harnesses=harnesses, hashes={'cranelift.rs (whole file, compiled verbatim)': sha(s.src), 'stub cranelift_* crates': stubs_hash.hexdigest()},
                rewrites={}, opcodes=list(ops.items()), harness_timeout=900,
                # cranelift.rs has no unsafe memory access (bounds checks are MIR assertions, kept): CBMC's own pointer
                # checks only inflate the formula; kissat decides these formulas ~30% faster than CaDiCaL (measured)
                kani_extra=['--solver', 'kissat', '--no-memory-safety-checks'],
                functions=['CraneliftCompiler::{new, compile_function, build_cfg, prepare_jump_blocks, build_function_prelude, translate_program (per opcode), insn_* / set_dst* helpers, reg_load, reg_store, reg_atomic_add, insert_bounds_check}'],
                assumptions=['the stub cranelift_* crates (/verif/stubs) ARE the assumed contract of Cranelift 0.127: IR instruction semantics, builder / module API, block discipline; Cranelift\'s own code generation and ABI lowering are trusted',
                             'the instruction under test sits at pc 0 of a 4-slot program (X ; filler|second half ; filler ; exit): translate_program has no position-dependent code except the block-table keys; CFG shapes beyond this program are NOT explored (bounded, labelled)',
                             'hashbrown / BTreeMap replaced by fixed-capacity containers with the same semantics up to 6 entries'])


def decode_witness(vals, opc):
    """Concrete-playback byte vectors in the order of the kani::any() calls of run_clif."""
    it = iter(vals)

    def u(nbytes, signed=False):
        b = next(it)
        if len(b) != nbytes:
            raise ValueError('witness layout mismatch: expected %d bytes, got %d' % (nbytes, len(b)))
        return int.from_bytes(bytes(b), 'little', signed=signed)
    w = dict(engine='cranelift', depth='0', pc='0', n='4')
    w['insn'] = dict(opc=opc, dst=u(1), src=u(1), off=u(2, True), imm=u(4, True))
    w['next_imm'] = u(4, True)
    regs = [u(8) for _ in range(11)]
    w['reg'] = [str(x) for x in regs]
    w['mem'] = [str(u(8)), str(u(8))]
    w['mbuff'] = [str(u(8)), str(u(8))]
    w['stack'] = [str(u(8)), '512']
    w['load_data'] = str(u(8))
    return w


def witness(crate, harness, opcodes, replay_exe, want=None):
    """Concrete playback of a failing per-opcode harness -> witness -> the REAL Cranelift back end."""
    import json
    import subprocess
    import kani
    m = re.match(r'clif_(\w+)$', harness)
    opc = dict((k.lower(), v) for k, v in opcodes).get(m.group(1)) if m else None
    if opc is None:
        return dict(witness=None, replay_transcript='harness %s is not a per-opcode harness: no input to replay' % harness)
    vals, raw = kani.playback(crate, harness, prefix='cranelift::harnesses::', want=want, extra=['--solver', 'kissat', '--no-memory-safety-checks'])
    if not vals:
        return dict(witness=None, replay_transcript='Kani produced no concrete values:\n' + (raw or '')[-1500:])
    try:
        w = decode_witness(vals, opc)
    except (ValueError, StopIteration) as e:
        return dict(witness=None, replay_transcript='could not decode the counterexample: %r' % (e,))
    wp = os.path.join(crate, 'witness_%s.json' % harness)
    with open(wp, 'w') as f:
        json.dump(w, f)
    p = subprocess.run([replay_exe, 'step', wp], capture_output=True, text=True, timeout=600)
    out = (p.stdout + p.stderr).strip()
    return dict(witness=w, reproduced_on_real_code=out.startswith('REPRODUCED'), replay_transcript=out,
                replay_cmd='%s step <file holding the `witness` object>' % replay_exe)


if __name__ == '__main__':
    r = generate(sys.argv[1], sys.argv[2])
    print(len(r['harnesses']))
