"""Unit cfgdiff (C20): the two feature configurations {std} and {} of the crate.

1. /repo/src is cfg-evaluated for both feature sets by extract.cfg_strip (validated: both
   stripped trees compile with cargo) into work/cfg/{std,nostd}.
2. Every unit generator is run on both trees (generation only).  A unit whose extracted
   spans are byte-identical under both configurations is covered by its one proof (the
   proof obligations of that unit are those of C01..C19); a unit whose spans differ is
   proved a second time on the no_std tree against the SAME spec.
3. The inventory of `cfg(feature = "std")` sites per file is compared with the committed
   table below: a new std-dependent site has no story yet => undecided."""
import json
import os
import re
import shutil
import sys

sys.path.insert(0, os.path.dirname(os.path.dirname(os.path.abspath(__file__))))
from extract import cfg_strip, AnchorLost, sha  # noqa: E402

VERIF = os.path.dirname(os.path.dirname(os.path.dirname(os.path.abspath(__file__))))

# file -> number of cfg sites mentioning feature = "std", with the story for each file
STD_SITES = {
    'lib.rs': (43, 'pub mod lib re-exports (std vs alloc names of the same items), no_std Error module, custom_exec_memory field, set_jit_exec_memory, the std / no_std bodies of jit_compile in the 3 VM types: unit vmapi is proved on BOTH trees'),
    'jit.rs': (6, 'layout field + the two JitMemory::new variants + Drop: jit_compile / encoders / resolve_jumps are shared text (proved once); JitMemory::new (no_std variant) has its own contract harness jit_memory_new_nostd; the size expression of BOTH variants is proved (jit_memory_size_<k>: >= what the counting pass sized, whole pages; the allocating variant uses it for layout, mprotect and slice); alloc / mprotect themselves are trusted'),
    'helpers.rs': (5, 'bpf_time_getns, bpf_trace_printf, sqrti, rand exist only with std (absent, not different); gather_bytes / memfrob / strcmp are shared text'),
    'asm_parser.rs': (7, 'parse(): easy_parse (std) vs parse (no_std) of the same combine grammar: inside the trusted grammar; differs only in the error TEXT'),
    'disassembler.rs': (3, 'disassemble(): println! vs log::info! of the same to_insn_vec entries (to_insn_vec itself is shared text)'),
}


def make_trees(repo, work):
    out = {}
    inv = {}
    for tag, feats in (('std', ['std', 'cranelift']), ('nostd', ['cranelift'])):
        d = os.path.join(work, 'cfg', tag)
        shutil.rmtree(d, ignore_errors=True)
        os.makedirs(os.path.join(d, 'src'))
        for fn in sorted(os.listdir(os.path.join(repo, 'src'))):
            if not fn.endswith('.rs'):
                continue
            with open(os.path.join(repo, 'src', fn)) as f:
                s = f.read()
            if tag == 'std':
                inv[fn] = len(re.findall(r'#\[cfg\([^\]]*feature\s*=\s*"std"', s))
            t, _ = cfg_strip(s, feats)
            with open(os.path.join(d, 'src', fn), 'w') as f:
                f.write(t)
        for extra in ('Cargo.lock', 'Cargo.toml', 'README.md'):
            if os.path.exists(os.path.join(repo, extra)):
                shutil.copy(os.path.join(repo, extra), os.path.join(d, extra))
        out[tag] = d
    return out, inv


def compare_units(trees, work, gens):
    """gens: list of (unit_name, generate_fn).  Returns per unit: (equal_keys, differing_keys)."""
    res = {}
    for name, gen in gens:
        h = {}
        for tag in ('std', 'nostd'):
            od = os.path.join(work, 'cfg', 'gen', tag, name)
            os.makedirs(od, exist_ok=True)
            info = gen(trees[tag], od)
            h[tag] = info.get('hashes') or {}
        keys = sorted(set(h['std']) | set(h['nostd']))
        eq = [k for k in keys if h['std'].get(k) == h['nostd'].get(k)]
        df = [k for k in keys if k in h['std'] and k in h['nostd'] and h['std'][k] != h['nostd'][k]]
        absent = [k for k in keys if (k in h['std']) != (k in h['nostd'])]
        res[name] = (eq, df, absent)
    return res
