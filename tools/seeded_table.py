#!/usr/bin/env python3
"""Collect seeded/<id>/detection/*.txt into seeded/<id>/meta.json (detected_by) and print a markdown table."""
import glob
import json
import os
import re

V = os.path.dirname(os.path.dirname(os.path.abspath(__file__)))
rows = []
for d in sorted(glob.glob(os.path.join(V, 'seeded', '*'))):
    mp = os.path.join(d, 'meta.json')
    if not os.path.exists(mp):
        continue
    meta = json.load(open(mp))
    det = {}
    for f in sorted(glob.glob(os.path.join(d, 'detection', '*.txt'))):
        pid = os.path.basename(f)[:-4]
        txt = open(f).read()
        rc = re.search(r'exit=(\d+)', txt)
        rc = int(rc.group(1)) if rc else None
        obs = re.findall(r'failed obligation: (\S+) :: (.*)', txt)
        repro = any(l.startswith('VIOLATION') and 'no-failing-input-found' not in l for l in txt.splitlines())
        det[pid] = dict(exit=rc, obligations=['%s :: %s' % (a, b[:90]) for a, b in obs[:3]], input_replayed=repro)
    meta['detected_by'] = det
    json.dump(meta, open(mp, 'w'), indent=1)
    caught = [p for p, v in det.items() if v['exit'] == 1]
    und = [p for p, v in det.items() if v['exit'] == 2]
    missed = [p for p, v in det.items() if v['exit'] == 0]
    first = ''
    for p in caught:
        if det[p]['obligations']:
            first = det[p]['obligations'][0]
            break
    rep = 'yes' if any(v['input_replayed'] for v in det.values()) else '-'
    rows.append('| %s | %s | %s | %s | %s | %s | %s |' % (meta['id'], meta['breaks_property'], ', '.join(caught) or '-', ', '.join(und) or '-', ', '.join(missed) or '-', rep, first.replace('|', '/')))
print('| seeded change | breaks | caught by (exit 1) | undecided (exit 2) | not flagged (exit 0) | counterexample reproduced on the real crate | first failing obligation |')
print('|---|---|---|---|---|---|---|')
print('\n'.join(rows))
