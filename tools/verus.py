"""Run Verus on one generated file; map its diagnostics to functions."""
import json
import os
import re
import subprocess
import time

SEMANTIC = re.compile(
    r'postcondition not satisfied|precondition not satisfied|possible arithmetic underflow/overflow|'
    r'assertion failed|invariant not satisfied|possible division by zero|index out of bounds|'
    r'decreases not satisfied|possible bit shift underflow/overflow|unreachable|'
    r'recommendation not met|loop invariant|could not prove termination|failed precondition|panic')
RESOURCE = re.compile(r'rlimit|resource limit|timed out|timeout|solver.*unknown|z3.*crash', re.I)


def fn_ranges(text):
    """[(name, first_line, last_line)] for every fn item (approximate: up to the next fn)."""
    out = []
    lines = text.split('\n')
    starts = []
    for k, l in enumerate(lines, 1):
        m = re.match(r'\s*(?:pub(?:\([a-z]+\))?\s+)?(?:open\s+|closed\s+)?(?:broadcast\s+)?(?:proof\s+|spec\s+|exec\s+)?(?:const\s+)?fn\s+(\w+)', l)
        if m:
            starts.append((m.group(1), k))
    for i, (n, k) in enumerate(starts):
        end = starts[i + 1][1] - 1 if i + 1 < len(starts) else len(lines)
        out.append((n, k, end))
    return out


def run(path, functions=None, rlimit=None, timeout=1800):
    cmd = ['verus', path, '--output-json', '--time', '--multiple-errors', '50']
    if rlimit:
        cmd += ['--rlimit', str(rlimit)]
    t0 = time.time()
    env = dict(os.environ)
    try:
        p = subprocess.run(cmd, capture_output=True, text=True, timeout=timeout, env=env, cwd=os.path.dirname(path))
    except subprocess.TimeoutExpired:
        return dict(functions={f: dict(status='undecided', why='verus timeout') for f in (functions or ['<file>'])},
                    verified=0, errors=0, cmd=' '.join(cmd), wall=time.time() - t0, smt_s=None)
    wall = time.time() - t0
    try:
        js = json.loads(p.stdout[p.stdout.index('{'):])
    except Exception:
        js = {}
    vr = js.get('verification-results', {})
    with open(path) as f:
        text = f.read()
    ranges = fn_ranges(text)
    names = functions or [n for n, _, _ in ranges]
    res = {n: dict(status='ok', why='', output='') for n in names}
    # diagnostics: split stderr into error blocks
    blocks = re.split(r'\n(?=error|warning|note: )', '\n' + p.stderr)
    hard_error = None
    for b in blocks:
        b = b.strip()
        if not b.startswith('error'):
            continue
        if b.startswith('error: aborting due to'):
            continue
        first = b.split('\n', 1)[0]
        m = re.search(r'-->\s*[^:\n]+:(\d+):(\d+)', b)
        line = int(m.group(1)) if m else None
        fn = None
        if line is not None:
            for n, a, z in ranges:
                if a <= line <= z:
                    fn = n
        sem = bool(SEMANTIC.search(first)) and not RESOURCE.search(first)
        if fn in res:
            if sem:
                res[fn]['status'] = 'failed'
                res[fn]['output'] += b[:1500] + '\n'
            elif res[fn]['status'] != 'failed':
                res[fn]['status'] = 'undecided'
                res[fn]['why'] = first[:200]
                res[fn]['output'] += b[:1500] + '\n'
        else:
            # error outside any listed function (type error, unsupported construct, ...)
            if not sem or fn is None:
                hard_error = (hard_error or '') + b[:800] + '\n'
    if vr.get('encountered-vir-error') or (not js) or (hard_error and not vr):
        why = (hard_error or p.stderr[-1500:] or 'verus produced no result')
        for n in res:
            if res[n]['status'] == 'ok':
                res[n] = dict(status='undecided', why='verus could not process the file: ' + why[:300], output=why[:1500])
    elif hard_error:
        for n in res:
            if res[n]['status'] == 'ok':
                res[n] = dict(status='undecided', why='diagnostic outside listed functions', output=hard_error[:1500])
    # sanity: verus says success <=> nothing failed
    if vr and not vr.get('success') and all(r['status'] == 'ok' for r in res.values()):
        for n in res:
            res[n] = dict(status='undecided', why='verus reported errors that could not be attributed', output=p.stderr[-1500:])
    smt = (((js.get('times-ms') or {}).get('smt') or {}).get('total'))
    return dict(functions=res, verified=vr.get('verified', 0), errors=vr.get('errors', 0), cmd=' '.join(cmd), wall=wall,
                smt_s=(smt / 1000.0) if smt is not None else None, stderr=p.stderr[-4000:])
