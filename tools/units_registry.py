"""Registry of units (generated crates / files) and how each is run."""
import json
import os
import re

import driver
import kani
from driver import Undecided, VERIF, WORK

import interp
import codec
import disasm
import asm
import vmapi
import jit as jit_unit
import clif

MACHINERY_FILES = ('src/spec.rs', 'contract.rs', 'src/shadow.rs', 'src/x86.rs', 'src/jit/abs.rs')


def _status(c):
    s = c['status']
    if s in ('Success', 'Unreachable'):
        return 'ok'
    if s == 'Satisfied':
        return 'ok'
    if s == 'Failure':
        return 'failed'
    return 'undecided'


def harness_text(crate, rel, name):
    try:
        with open(os.path.join(crate, rel)) as f:
            s = f.read()
        i = s.find('fn %s()' % name)
        if i < 0:
            return ''
        j = s.rfind('#[kani::proof', 0, i)
        k = s.find('\n}\n', i)
        return s[j:k + 3]
    except OSError:
        return ''


def kani_unit(gen, cfg='std', harness_file='src/harnesses.rs', trusted=None, assumptions=None):
    def run(unit_name, parts, tier, use_cache, jobs, pid=None):
        kinds = {}

        def hf(h):
            return any(p.harness(h) for p in parts)

        # first generate to learn the harness kinds (known-finding harnesses are selected by property)
        outdir = os.path.join(WORK, cfg, unit_name)
        os.makedirs(outdir, exist_ok=True)
        findings_for_pid = set()
        with open(os.path.join(VERIF, 'known_findings.json')) as f:
            for k in json.load(f)['findings']:
                if k.get('status') == 'open' and k.get('unit') == unit_name and pid in k.get('properties', []):
                    findings_for_pid.add(k['id'])

        heavy_skipped = []

        def selector(h):
            hk = KINDS.get(h, {})
            if hk.get('heavy') and tier != 'thorough':
                if hf(h) and h not in heavy_skipped:
                    heavy_skipped.append(h)
                return False
            if h.startswith('kf_'):
                return any(h.startswith('kf_' + fid.replace('-', '_') + '_') or h == 'kf_' + fid.replace('-', '_')
                           for fid in findings_for_pid)
            return hf(h)

        KINDS = {}
        def gen2(repo, od):
            i = gen(repo, od)
            KINDS.update({h['name']: h for h in i['harnesses']})
            return i
        ur = driver.run_kani_unit(unit_name, gen2, cfg, selector, tier, use_cache, jobs)
        info = ur.info
        kinds = {h['name']: h for h in info['harnesses']}
        obligations, known, samples = [], [], []
        known_by_id = {}
        kx = info.get('kani_extra', [])
        solver = kx[kx.index('--solver') + 1] if '--solver' in kx else 'cadical'
        be = 'kani/cbmc+' + solver
        for h, res in sorted(ur.results.items()):
            hk = kinds.get(h, {})
            cls = driver.classify(res)
            if hk.get('kind') == 'known_finding':
                fid = hk['finding']
                f = next(k for k in info['findings'] if k['id'] == fid)
                bad = [c for c in res['checks'] if c['status'] == 'Failure'
                       and any(e in c.get('description', '') for e in f['expect_fail'])]
                if cls == 'undecided':
                    obligations.append(dict(unit=unit_name, harness=h, name='known finding %s still present' % fid,
                                            status='undecided', backend='kani', why='timeout/tool failure'))
                elif bad:
                    import props
                    rp = known_by_id[fid]['rp'] if fid in known_by_id else (props.replay_finding(f['replay_id']) if f.get('replay_id') else '')
                    known_by_id.setdefault(fid, dict(f=f, hs=[], rp=rp))['hs'].append(h)
                else:
                    known.append('NOTE: known finding %s no longer fails in %s/%s (stale entry in known_findings.json; nothing is suppressed by it any more)' % (fid, unit_name, h))
                continue
            if hk.get('kind') == 'should_panic':
                obligations.append(dict(unit=unit_name, harness=h, name='should_panic harness: the panic is reached on every path satisfying the assumption',
                                        status='ok' if res['status'] == 'Success' else ('undecided' if cls == 'undecided' else 'failed'),
                                        backend=be, seconds=res.get('seconds'), why='',
                                        output='' if res['status'] == 'Success' else json.dumps(res.get('error'))[:600]))
                continue
            if cls == 'undecided':
                obligations.append(dict(unit=unit_name, harness=h, name='harness did not complete', status='undecided',
                                        backend='kani', why=json.dumps(res.get('error'))[:300]))
                continue
            n_here = 0
            for c in res['checks']:
                is_cover = c.get('category') == 'cover'
                sel = is_cover or any(p.harness(h) and p.checks(h, c, info) for p in parts)
                if not sel:
                    continue
                st = _status(c)
                name = c.get('description', '').replace('\n', ' ')[:160]
                loc = c.get('location') or {}
                locs = '%s:%s' % (loc.get('file', ''), loc.get('line', ''))
                if is_cover and c['status'] != 'Satisfied':
                    st, why = 'undecided', 'vacuity guard: cover not satisfied (%s)' % c['status']
                elif st == 'failed' and any(kani.check_file(c).endswith(m) for m in MACHINERY_FILES):
                    st, why = 'undecided', 'failure located inside the specification/shadow text, not in extracted code'
                else:
                    why = ''
                obligations.append(dict(unit=unit_name, harness=h, name=name, status=st, backend=be,
                                        location=locs, seconds=res.get('seconds'), why=why,
                                        output=json.dumps(c)[:1500] if st != 'ok' else ''))
                n_here += 1
            if n_here and len(samples) < 3:
                samples.append(dict(unit=unit_name, harness=h, backend='kani',
                                    n_checks=n_here, solver_seconds=res.get('stats', {}).get('runtime_solver_s'),
                                    harness_text=harness_text(os.path.join(WORK, cfg, unit_name), info.get('harness_file', harness_file), h)[:2500]))
        for fid, kd in known_by_id.items():
            f = kd['f']
            known.append('KNOWN-FINDING: property=%s %s [%s; obligations %s fail exactly on the carved-out class `%s` and are proved outside it; real crate: %s]' % (
                pid, f['what'], fid, ', '.join('%s/%s' % (unit_name, h) for h in kd['hs']), f['exclusion'], kd['rp']))
        solver_s = sum((r.get('stats') or {}).get('runtime_decision_procedure_s', 0) or 0 for r in ur.results.values())
        meta = dict(cmd=ur.meta['cmd'], backend='Kani 0.68 / CBMC 6.11 / ' + solver + (' (flags: %s)' % ' '.join(kx) if kx else ''), harnesses=len(ur.results),
                    cache_hits=ur.meta['cache_hits'], ran=ur.meta['ran'], wall_s=round(ur.meta['wall'], 1),
                    solver_s=round(solver_s, 2), extracted_sha256=info.get('hashes'), rewrites=info.get('rewrites'),
                    generated_tree_sha256=ur.meta['tree_hash'],
                    functions_under_contract=info.get('functions', []),
                    thorough_only_harnesses_not_run_in_this_tier=heavy_skipped,
                    trusted=trusted or [], assumptions=(assumptions or []) + info.get('assumptions', []))
        return dict(obligations=obligations, known=known, samples=samples, meta=meta)
    return run


def verus_unit(gen, trusted=None, assumptions=None):
    import verus

    def run(unit_name, parts, tier, use_cache, jobs, pid=None):
        outdir = os.path.join(WORK, 'std', unit_name)
        os.makedirs(outdir, exist_ok=True)
        from extract import AnchorLost
        try:
            info = gen(driver.REPO, outdir)
        except AnchorLost as e:
            raise Undecided('extraction anchor lost in unit %s: %s' % (unit_name, e))
        r = verus.run(info['file'], info.get('functions'), rlimit=info.get('rlimit'))
        obligations, samples = [], []
        for fn, st in sorted(r['functions'].items()):
            if not any(p.harness(fn) for p in parts):
                continue
            obligations.append(dict(unit=unit_name, harness=fn, name='verus: all obligations of fn %s (requires/ensures/invariants/overflow/index)' % fn,
                                    status=st['status'], backend='verus/z3', seconds=None,
                                    why=st.get('why', ''), output=st.get('output', '')[:3000], location=info['file']))
        if obligations:
            samples.append(dict(unit=unit_name, backend='verus', file=info['file'], verified=r['verified'], errors=r['errors'],
                                text=info.get('sample', '')[:2500]))
        meta = dict(cmd=r['cmd'], backend='Verus 0.2026.09.13 / Z3', verified_items=r['verified'], error_items=r['errors'],
                    wall_s=round(r['wall'], 1), solver_s=r.get('smt_s'), extracted_sha256=info.get('hashes'),
                    rewrites=info.get('rewrites'), functions_under_contract=info.get('functions', []),
                    scan=info.get('scan'),
                    trusted=trusted or [], assumptions=(assumptions or []) + info.get('assumptions', []))
        return dict(obligations=obligations, known=[], samples=samples, meta=meta)
    return run


def native_unit(args, what):
    """exhaustive native evaluation by the replay tool (links the real crate): one OBLIGATION line per case"""
    import subprocess
    import time

    def run(unit_name, parts, tier, use_cache, jobs, pid=None):
        import props
        exe = props.replay_tool()
        t0 = time.time()
        p = subprocess.run([exe] + args, capture_output=True, text=True, timeout=900)
        obligations = []
        for line in p.stdout.splitlines():
            if line.startswith('OBLIGATION '):
                _, name, st, *rest = line.split(' ', 3)
                if not any(pp.harness(name) for pp in parts):
                    continue
                obligations.append(dict(unit=unit_name, harness=name, name=what + ': ' + name,
                                        status='ok' if st == 'ok' else 'failed', backend='native evaluation (exhaustive over a finite table), real crate',
                                        output=' '.join(rest)[:600], why='', reproduced=True))
        if not obligations:
            raise Undecided('replay %s printed no obligations: %s' % (' '.join(args), (p.stdout + p.stderr)[-800:]))
        meta = dict(cmd=exe + ' ' + ' '.join(args), backend='native evaluation of a closed finite table through the public API (not SMT)',
                    wall_s=round(time.time() - t0, 1), trusted=[], assumptions=[])
        return dict(obligations=obligations, known=[], samples=[dict(unit=unit_name, sample=obligations[0]['name'])], meta=meta)
    return run


def cfgdiff_unit():
    import cfgdiff
    import alu_arms, verifier_unit, helpers_unit

    def run(unit_name, parts, tier, use_cache, jobs, pid=None):
        import time
        t0 = time.time()
        trees, inv = cfgdiff.make_trees(driver.REPO, WORK)
        obligations = []
        gens = [('interp', interp.generate), ('alu_arms', alu_arms.generate), ('verifier', verifier_unit.generate), ('helpers', lambda r, o: helpers_unit.generate(r, o, std_only_ok=True)),
                ('disasm', disasm.generate), ('asm', asm.generate), ('codec', codec.generate), ('jit', jit_unit.generate), ('vmapi', vmapi.generate)]
        cmp = cfgdiff.compare_units(trees, WORK, gens)
        second = []
        for unit, (eq, df, absent) in cmp.items():
            for k in absent:
                obligations.append(dict(unit=unit_name, harness='absent:' + unit, name='%s: span `%s` exists in only one configuration (absent, not different)' % (unit, k), status='ok', backend='extractor (cfg evaluation)', why=''))
            for k in eq:
                obligations.append(dict(unit=unit_name, harness='same-text:' + unit, name='%s: extracted span `%s` is byte-identical with and without std (one proof covers both)' % (unit, k),
                                        status='ok', backend='extractor (cfg evaluation + sha256)', why=''))
            hard = [k for k in df if 'whole file' not in k]
            for k in df:
                obligations.append(dict(unit=unit_name, harness='differs:' + unit, name='%s: span `%s` differs between the configurations -> %s' % (unit, k, 'covered by the identical sub-spans' if k not in hard else 'proved again on the no_std tree'),
                                        status='ok', backend='extractor (cfg evaluation + sha256)', why=''))
            if hard:
                second.append(unit)
        reproved_files = set()
        for unit, (eq, df, absent) in cmp.items():
            for k in df:
                if 'whole file' not in k:
                    reproved_files.add(k.split('::')[0])
        for fn, n in sorted(inv.items()):
            want = cfgdiff.STD_SITES.get(fn)
            if n == 0 and want is None:
                continue
            if want and want[0] == n:
                obligations.append(dict(unit=unit_name, harness='inventory:' + fn, name='cfg(feature = "std") sites in %s: %d, each with a story (%s)' % (fn, n, want[1][:160]),
                                        status='ok', backend='extractor (cfg inventory)', why=''))
            elif fn in reproved_files:
                obligations.append(dict(unit=unit_name, harness='inventory:' + fn, name='cfg(feature = "std") sites in %s changed (%d): the spans of %s that differ are proved again on the no_std tree' % (fn, n, fn),
                                        status='ok', backend='extractor (cfg inventory)', why=''))
            else:
                obligations.append(dict(unit=unit_name, harness='inventory:' + fn, name='cfg(feature = "std") sites in %s changed: %d (table says %s)' % (fn, n, want[0] if want else 0),
                                        status='undecided', backend='extractor (cfg inventory)', why='a new std-dependent site outside every verified span has no verification story in /verif/tools/units/cfgdiff.py'))
        metas = {}
        for unit in second:
            if unit == 'vmapi':
                gen = lambda r, o: vmapi.generate(r, o, features=('"cranelift"',))
            else:
                gen = dict(gens)[unit]
            ur = driver.run_kani_unit(unit, gen, 'nostd', lambda h: not KIND_HEAVY.get(h), tier, use_cache, jobs, repo=trees['nostd'])
            metas[unit] = ur.meta
            for h, res in sorted(ur.results.items()):
                cls = driver.classify(res)
                if cls == 'undecided':
                    obligations.append(dict(unit=unit_name, harness='nostd:%s/%s' % (unit, h), name='harness did not complete', status='undecided', backend='kani', why=json.dumps(res.get('error'))[:200]))
                    continue
                for c in res['checks']:
                    d = c.get('description', '')
                    if c.get('category') == 'cover' or 'ensures:' in d or kani.is_panic_check(c) and '/src/' not in kani.check_file(c):
                        st = _status(c)
                        if c.get('category') == 'cover' and c['status'] != 'Satisfied':
                            st = 'undecided'
                        obligations.append(dict(unit=unit_name, harness='nostd:%s/%s' % (unit, h), name=d.replace('\n', ' ')[:160], status=st, backend='kani/cbmc+cadical (no_std tree)',
                                                why='', output=json.dumps(c)[:800] if st != 'ok' else ''))
        # the no_std JitMemory::new contract lives in the jit unit (its crate is always built without `std`)
        ur = driver.run_kani_unit('jit', jit_unit.generate, 'std', lambda h: h == 'jit_memory_new_nostd' or h.startswith('jit_memory_size_'), tier, use_cache, jobs)
        for h, res in ur.results.items():
            for c in res['checks']:
                d = c.get('description', '')
                if 'ensures:' in d:
                    obligations.append(dict(unit=unit_name, harness='jit/' + h, name=d[:160], status=_status(c), backend='kani/cbmc+cadical', why='', output=''))
        meta = dict(cmd='extract.cfg_strip for {std} and {} + unit generators on both trees; cargo kani on the no_std tree for: %s' % (', '.join(second) or 'none'),
                    backend='extractor + Kani', wall_s=round(time.time() - t0, 1), units_proved_twice=second,
                    std_site_inventory=inv, trusted=[], assumptions=[
                        'Vec / Box / String / format! / BTreeMap are the same alloc items under their std and alloc names',
                        'asm_parser::parse: easy_parse vs parse of the same grammar (trusted combine grammar; only the error text differs)',
                        'JitMemory::new (std): allocation + mprotect + transmute are not executed by the verifier; its size expression is proved (>= what the counting pass sized, whole pages) and its use for layout / mprotect / slice is a structural obligation; the emission passes it runs are the shared jit_compile text',
                        'std-only helpers (rand, sqrti, bpf_trace_printf, bpf_time_getns) are absent without std, not different'])
        return dict(obligations=obligations, known=[], samples=[dict(unit=unit_name, sample=obligations[0]['name'])], meta=meta)
    return run


KIND_HEAVY = {}


def interp_witness(h, obs):
    import props
    crate = os.path.join(WORK, 'std', 'interp')
    ops = interp.opcode_table(driver.REPO)
    want = obs[0]['name'].strip('"') if obs else None
    return interp.witness(crate, h, ops.items(), props.replay_tool(), want=want)


def jit_witness(h, obs):
    import props
    crate = os.path.join(WORK, 'std', 'jit')
    info_ops = interp.opcode_table(driver.REPO).items()
    want = obs[0]['name'].strip('"') if obs else None
    return jit_unit.witness(crate, h, info_ops, props.replay_tool(), want=want)


def clif_witness(h, obs):
    import props
    crate = os.path.join(WORK, 'std', 'clif')
    _, ops = clif.opcodes_of(driver.REPO)
    want = obs[0]['name'].strip('"') if obs else None
    return clif.witness(crate, h, ops.items(), props.replay_tool(), want=want)


UNITS = {
    'interp': dict(run=kani_unit(interp.generate, harness_file='src/interpreter/harnesses.rs'),
                   witness=lambda h, obs: interp_witness(h, obs)),
    'codec': dict(run=kani_unit(codec.generate, harness_file='src/lib.rs')),
    'disasm': dict(run=kani_unit(disasm.generate, harness_file='src/disassembler/harnesses.rs')),
    'asm': dict(run=kani_unit(asm.generate, harness_file='src/assembler.rs')),
    'vmapi': dict(run=kani_unit(vmapi.generate, harness_file='src/harnesses.rs')),
    'jit': dict(run=kani_unit(jit_unit.generate, harness_file='src/jit/harnesses.rs'), witness=lambda h, obs: jit_witness(h, obs)),
    'clif': dict(run=kani_unit(clif.generate, harness_file='src/cranelift/harnesses.rs'), witness=lambda h, obs: clif_witness(h, obs)),
    'cfgdiff': dict(run=cfgdiff_unit()),
    'wfwitness': dict(run=native_unit(['wf-witness'], 'vacuity guard: a concrete instruction satisfies the precondition wf_facts of the per-opcode harnesses, opcode')),
    'asmtable': dict(run=native_unit(['asm-table'], 'assemble() of the documented mnemonic')),
}


def register_late():
    try:
        import alu_arms
        UNITS['alu_arms'] = dict(run=verus_unit(alu_arms.generate))
    except ImportError:
        pass
    try:
        import helpers_unit
        UNITS['helpers'] = dict(run=verus_unit(helpers_unit.generate))
    except ImportError:
        pass
    try:
        import insnvec_unit
        UNITS['insnvec'] = dict(run=verus_unit(insnvec_unit.generate))
    except ImportError:
        pass
    try:
        import verifier_unit
        UNITS['verifier'] = dict(run=verus_unit(verifier_unit.generate))
    except ImportError:
        pass


register_late()
