#!/bin/bash
# confirm2.sh <ID> <m1|m2> [demo cargo flags] : verify a seeded change in the scratch worktree /tmp/wt/<ID>
ID=$1; M=$2; DF=${3:-}; WT=/tmp/wt/$ID; OUT=/tmp/wt/${ID}_out
cd $WT || exit 2
git checkout -q -- . ; rm -f tests/seeded_demo.rs
res="$ID/$M:"
git apply --check $OUT/$M.diff 2>/dev/null || { echo "$res patch-does-not-apply-on-HEAD"; exit 1; }
cp $OUT/${M}_demo.rs tests/seeded_demo.rs
if cargo test -j 4 --offline $DF --test seeded_demo >/tmp/wt/${ID}_${M}_clean.log 2>&1; then res="$res demo-passes-clean"; else res="$res DEMO-FAILS-CLEAN"; fi
git apply $OUT/$M.diff
if cargo test -j 4 --offline $DF --test seeded_demo >/tmp/wt/${ID}_${M}_mut.log 2>&1; then res="$res DEMO-PASSES-WITH-CHANGE"; else res="$res demo-fails-with-change"; fi
rm -f tests/seeded_demo.rs
if cargo test -j 4 --workspace --no-fail-fast --offline >/tmp/wt/${ID}_${M}_suite.log 2>&1; then res="$res suite-passes"; else res="$res SUITE-FAILS"; fi
if [ "$ID" = C04 ] || [ "$ID" = C11 ]; then if cargo test -j 4 --workspace --no-fail-fast --offline --features cranelift >/tmp/wt/${ID}_${M}_suite_clif.log 2>&1; then res="$res clif-suite-passes"; else res="$res CLIF-SUITE-FAILS"; fi; fi
git checkout -q -- .
echo "$res"
