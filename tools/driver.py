#!/usr/bin/env python3
"""/verif/check driver: property id -> units -> obligations -> decision -> evidence.

Exit codes: 0 every obligation discharged (or only listed known findings fail);
            1 VIOLATION (a baseline obligation fails for a semantic reason);
            2 undecided (anchor lost, build failure, timeout, tool crash).
"""
import argparse
import fcntl
import hashlib
import json
import os
import sys
import time
import traceback

HERE = os.path.dirname(os.path.abspath(__file__))
VERIF = os.path.dirname(HERE)
sys.path.insert(0, HERE)
sys.path.insert(0, os.path.join(HERE, 'units'))

import kani  # noqa: E402
from extract import AnchorLost  # noqa: E402

REPO = os.environ.get('VERIF_REPO', '/repo')
WORK = os.environ.get('VERIF_WORK') or os.path.join(VERIF, 'work')


class Undecided(Exception):
    pass


def load_known():
    with open(os.path.join(VERIF, 'known_findings.json')) as f:
        return json.load(f)


def tree_hash(d, skip=('target', 'kani_', 'out', '.lock')):
    h = hashlib.sha256()
    for root, dirs, files in os.walk(d):
        dirs[:] = sorted(x for x in dirs if x != 'target')
        for fn in sorted(files):
            if fn.startswith('kani_') or fn.endswith('.json') and root == d or fn.endswith('.log') or fn.endswith('.tmp') or fn in ('.lock', 'log.txt', 'log_all.txt', 'v.txt', 'cbmc_cmd.sh'):
                continue
            p = os.path.join(root, fn)
            h.update(os.path.relpath(p, d).encode())
            with open(p, 'rb') as f:
                h.update(f.read())
    return h.hexdigest()


class UnitRun:
    """Result of running a set of harnesses of one generated unit."""

    def __init__(self, unit, info, results, meta):
        self.unit = unit
        self.info = info          # generator info (hashes, rewrites, ...)
        self.results = results    # harness -> dict(status, seconds, checks, stats)
        self.meta = meta          # cmd, wall, cache hits...


def run_kani_unit(unit_name, gen, cfg, harness_filter, tier, use_cache=True, jobs=16, repo=None):
    """Generate the crate, run the selected harnesses (content-addressed cache)."""
    outdir = os.path.join(WORK, cfg, unit_name)
    os.makedirs(outdir, exist_ok=True)
    # Short critical section: (re)generate the crate.  Files are only rewritten when their content
    # changes, so concurrent checks that share this unit never see a half-written source file and
    # cargo does not rebuild for nothing.  The proofs themselves run OUTSIDE the lock, each
    # invocation with its own target directory, so checks of different properties do not queue.
    lock = open(os.path.join(outdir, '.lock'), 'w')
    fcntl.flock(lock, fcntl.LOCK_EX)
    try:
        import shutil
        import tempfile
        tmp = tempfile.mkdtemp(prefix='gen_', dir=os.path.join(WORK, cfg))
        try:
            try:
                info = gen(repo or REPO, tmp)
            except AnchorLost as e:
                raise Undecided('extraction anchor lost in unit %s: %s' % (unit_name, e))
            for root, dirs, files in os.walk(tmp):
                rel = os.path.relpath(root, tmp)
                os.makedirs(os.path.join(outdir, rel), exist_ok=True)
                for fn in files:
                    src = os.path.join(root, fn)
                    dst = os.path.join(outdir, rel, fn)
                    with open(src, 'rb') as f:
                        data = f.read()
                    old = None
                    if os.path.exists(dst):
                        with open(dst, 'rb') as f:
                            old = f.read()
                    if old != data:
                        with open(dst + '.tmp', 'wb') as f:
                            f.write(data)
                        os.replace(dst + '.tmp', dst)
        finally:
            shutil.rmtree(tmp, ignore_errors=True)
        th = tree_hash(outdir)
    finally:
        fcntl.flock(lock, fcntl.LOCK_UN)
        lock.close()
    prefix = info.get('prefix', '')
    all_h = [h['name'] for h in info['harnesses']]
    sel = [h for h in all_h if harness_filter(h)]
    if not sel:
        raise Undecided('no harness selected in unit %s' % unit_name)
    cache_dir = os.path.join(WORK, 'cache')
    os.makedirs(cache_dir, exist_ok=True)
    results, todo, hits = {}, [], 0
    for h in sel:
        key = hashlib.sha256((th + '|' + h + '|' + ' '.join(kani.KANI_FLAGS + info.get('kani_extra', []))).encode()).hexdigest()
        cp = os.path.join(cache_dir, key + '.json')
        if use_cache and os.path.exists(cp):
            try:
                with open(cp) as f:
                    results[h] = json.load(f)
                results[h]['cached'] = True
                hits += 1
                continue
            except ValueError:
                pass
        todo.append((h, cp))
    meta = dict(cache_hits=hits, ran=len(todo), cmd=None, wall=0.0, tree_hash=th)
    if todo:
        tag = '%s_%d' % (unit_name, os.getpid())
        heavy = set(h['name'] for h in info['harnesses'] if h.get('heavy'))
        batches = [([h for h, _ in todo if h not in heavy], jobs, info.get('harness_timeout', 900), 3600),
                   # heavy harnesses (thorough tier): ~10 GB and 10-20 min each -> few at a time, long timeout
                   ([h for h, _ in todo if h in heavy], min(jobs, 4), 2700, 4 * 3600)]
        r = None
        try:
            for hs, jb, hto, tto in batches:
                if not hs:
                    continue
                rb = kani.run(outdir, hs, jobs=jb, prefix=prefix, harness_timeout=hto, total_timeout=tto, tag=tag,
                              extra=info.get('kani_extra', []) + ['--target-dir', os.path.join(WORK, cfg, 'target_' + tag)])
                if r is None:
                    r = rb
                else:
                    r['results'].update(rb['results'])
                    r['wall'] += rb['wall']
                    r['cmd'] += ' ;; ' + rb['cmd']
        except kani.ToolFailure as e:
            raise Undecided(str(e))
        finally:
            import shutil
            shutil.rmtree(os.path.join(WORK, cfg, 'target_' + tag), ignore_errors=True)
        meta.update(cmd=r['cmd'], wall=r['wall'], tools=r['tools'], log=r['log'])
        for h, cp in todo:
            if h not in r['results']:
                raise Undecided('harness %s produced no result (see %s)' % (h, r['log']))
            res = r['results'][h]
            res['cached'] = False
            results[h] = res
            # only cache decided results (a timeout is not a result)
            # only decided results are cached: a timeout, an out-of-memory run or a `Failure` without any failed check
            # (CBMC died half-way) is not a result
            if not timed_out(res) and (res['status'] == 'Success' or (res['status'] == 'Failure' and any(c['status'] == 'Failure' for c in res['checks']))):
                with open(cp + '.%d.tmp' % os.getpid(), 'w') as f:
                    json.dump(res, f)
                os.replace(cp + '.%d.tmp' % os.getpid(), cp)
    if meta['cmd'] is None:
        meta['cmd'] = 'cargo kani %s --harness <...>  (all %d results re-used from the content-addressed cache: identical generated text)' % (' '.join(kani.KANI_FLAGS), hits)
    return UnitRun(unit_name, info, results, meta)


def timed_out(res):
    e = res.get('error') or {}
    s = json.dumps(e).lower()
    return 'timeout' in s or 'timed out' in s or 'out_of_memory' in s


def classify(res):
    """'ok' | 'failed' | 'undecided' for one harness result."""
    if timed_out(res):
        return 'undecided'
    if res['status'] == 'Success':
        return 'ok'
    bad = [c for c in res['checks'] if c['status'] == 'Failure']
    if bad:
        return 'failed'
    und = [c for c in res['checks'] if c['status'] not in ('Success', 'Satisfied', 'Unreachable', 'Failure')]
    if und or not res['checks']:
        return 'undecided'
    # status Failure without failed checks: e.g. unsatisfied cover
    return 'failed'


def main():
    import props
    ap = argparse.ArgumentParser()
    ap.add_argument('property')
    ap.add_argument('--tier', default=os.environ.get('VERIF_TIER', 'quick'))
    ap.add_argument('--replay')
    ap.add_argument('--no-cache', action='store_true')
    ap.add_argument('--jobs', type=int, default=int(os.environ.get('VERIF_JOBS', '16')))
    a = ap.parse_args()
    pid = a.property
    if pid not in props.PROPS:
        print('unknown or not-applicable property %s' % pid)
        return 2
    seed = int(os.environ.get('VERIF_SEED', '0') or 0)
    t0 = time.time()
    try:
        if a.replay:
            return props.replay(pid, a.replay)
        rc = props.check(pid, a.tier, seed, use_cache=not a.no_cache, jobs=a.jobs, t0=t0)
        return rc
    except Exception as e:
        if type(e).__name__ == 'Undecided':
            print('UNDECIDED property=%s: %s' % (pid, e))
            return 2
        traceback.print_exc()
        print('UNDECIDED property=%s: internal error in the checker' % pid)
        return 2


if __name__ == '__main__':
    sys.exit(main())
