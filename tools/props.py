"""Property definitions: which obligations of which unit decide which property,
the decision rule, the evidence file and the VIOLATION / KNOWN-FINDING lines."""
import json
import os
import re
import subprocess
import time

import driver
import kani
from driver import Undecided, VERIF, WORK, REPO

import units_registry as U

INTERP_SRC = 'src/interpreter.rs'


def desc(c):
    return c.get('description', '').replace('\n', ' ')


def in_file(c, suffix):
    return kani.check_file(c).endswith(suffix)


def ens(*names):
    """check filter: the named `ensures:` assertions of a step harness."""
    def f(h, c, info=None):
        d = desc(c)
        return any(('ensures: ' + n) in d for n in names)
    return f


def panics_in(suffix):
    """Rust panics located in the extracted text that this harness can reach: the
    code around the big match, plus the arm(s) of the harness's own opcode."""
    def f(h, c, info=None):
        if not (in_file(c, suffix) and kani.is_panic_check(c)):
            return False
        if info and info.get('match_lines') and h.startswith('step_'):
            try:
                line = int((c.get('location') or {}).get('line') or 0)
            except ValueError:
                return True
            m0, m1 = info['match_lines']
            if m0 <= line <= m1:
                arms = info['arm_lines'].get(h[5:].upper(), [])
                return any(a <= line <= b for a, b in arms)
        return True
    return f


def any_of(*fs):
    return lambda h, c, info=None: any(f(h, c, info) for f in fs)


def contract_clause(h, c):
    d = desc(c)
    return d.startswith('|result|') or 'precondition' in d.lower() and 'check_mem' in d


def real_or_harness(h, c, info=None):
    """checks located in the real crate's sources or in the harness file (not in std / kani library code)"""
    f = kani.check_file(c)
    return '/src/' in f and 'rustlib' not in f and '.rustup' not in f and 'kani-0.68' not in f or f.startswith('src/')


MEM_OPS = ('ld_abs', 'ld_ind', 'ld_b_reg', 'ld_h_reg', 'ld_w_reg', 'ld_dw_reg', 'st_')


def is_mem_h(h):
    return h.startswith('step_') and any(h[5:].startswith(m) for m in MEM_OPS)


def is_step(h):
    return h.startswith('step_')


class Part:
    def __init__(self, unit, harness, checks, what):
        self.unit, self.harness, self.checks, self.what = unit, harness, checks, what


COMMON_TRUSTED = [
    'rustc, Kani 0.68 (MIR->goto translation), CBMC 6.11 + CaDiCaL / kissat, Verus 0.2026.09.13 + Z3',
    'spec/ebpf_sem.rs says what the property statements say (review)',
    'extraction rewrites of DESIGN section 4 (get_insn -> env.fetch, raw-pointer primitives -> *_v over an abstract byte memory, &[u8] -> &Region in check_mem)',
    'shadows: Region for slices (a Rust slice does not wrap the address space), one-member view of the allowed set (Iterator::any = exists), abstract HashMap returning the harness-chosen answer for the single lookup of a step, format! evaluated for effect only',
]

PROPS = {
    'C01': dict(
        title='Interpreter returns the value the eBPF ISA defines',
        parts=[
            Part('interp', is_step,
                 ens('Ok/Err/exit value', 'register file equals', 'next pc equals', 'call frames and depth', 'memory access log'),
                 'one obligation set per opcode arm: result, registers, pc, frames, access log equal spec_step for ALL dst/src/off/imm/register values/pc/n'),
            Part('alu_arms', lambda h: True, lambda h, c, info=None: True,
                 'Verus: value written by the mul32/div/mod arms equals the spec function (CBMC cannot decide these)'),
        ],
        level_text='Every arm of the interpreter loop body (extracted verbatim every run) is proved equal to an executable small-step ISA spec for all operands, registers, program counters up to 1,000,000 and memory layouts; whole programs follow by induction over iterations (not mechanised).',
        assumptions=['iterate(step) = whole execution (the loop header and the trailing unreachable!() are dropped by the extraction; C05 covers them)',
                     'initial register file / zeroed stack are the C09 unit',
                     'stack allocated at an address >= 524280 (8 frames x 65535 bytes cannot wrap r10)'],
    ),
    'C02': dict(
        title='Interpreter confines every load and store',
        parts=[
            Part('interp', lambda h: h in ('contract_check_mem', 'cover_check_mem_pre'), lambda h, c, info=None: True,
                 'function contract of check_mem: Ok <=> the whole access lies inside mbuff, mem, stack or a registered range (no wrap)'),
            Part('interp', is_mem_h,
                 any_of(ens('Ok/Err/exit value', 'memory access log'), panics_in(INTERP_SRC)),
                 'every ldx/st/stx/xadd/ldabs/ldind arm, proved against the CONTRACT of check_mem (stub_verified): access performed iff allowed, with the instruction\'s own width, nothing logged when refused, no panic in the address arithmetic'),
        ],
        level_text='check_mem is verified against a region-containment contract for all addresses/lengths/layouts; each access arm is then verified modularly against that contract.',
        assumptions=['the set of allowed ranges is represented by one arbitrary member (any() over a set is the disjunction over its members)'],
    ),
    'C03': dict(
        title='x86-64 JIT-compiled code computes the same result as the interpreter',
        parts=[
            Part('wfwitness', lambda h: True, lambda h, c, info=None: True, 'vacuity guard (native, exhaustive over the opcodes): the opcode-specific precondition of every per-opcode harness is satisfiable'),
            Part('jit', lambda h: h.startswith('arm_') or h.startswith('enc_') or h in ('resolve_jumps_contract', 'epilogue_contract', 'map_register_contract') or h.startswith('prologue_'),
                 lambda h, c, info=None: 'ensures:' in desc(c) or 'requires:' in desc(c) or 'machinery:' in desc(c) or (in_file(c, 'src/jit.rs') and kani.is_panic_check(c)) or 'instruction fetch outside' in desc(c),
                 'per opcode: the bytes the real encoders emit (whole jit.rs compiled verbatim) are decoded and executed by the x86-64 subset semantics from an arbitrary machine state and equal spec_step through the register map: registers, next pc (recorded jump targets), data access, rsp/packet-base preserved; prologue, epilogue and resolve_jumps contracts.  The 12 mul/div/mod arms (emit_muldivmod, up to 16 x86 instructions) are proved modularly: enc_* = each instruction-level encoder against its contract (an abstract instruction, harness/jit/abs.rs), arm_*_sem_d<k> = the real arm with those encoders replaced by their contracts (Kani stubs), per destination register, arm_*_emit = the two compilation passes with the real encoders'),
        ],
        level_text='Both engines are proved equal to the same executable ISA spec (interpreter: C01; JIT: this check), per instruction and for all operands/registers/displacements/program counters; whole-program simulation over pc_locs/resolve_jumps is a paper lemma. The mul/div/mod arms are proved callee-by-contract in the quick tier and additionally end to end (10-15 min each) in the thorough tier.',
        assumptions=['emit_muldivmod arms, quick tier: modular proof (encoder contracts + arm over the contracts); the end-to-end byte-level harness of these 12 arms runs in the thorough tier only',
                     'ld_abs/ld_ind: immediate >= 0 (the JIT uses a signed disp32, the interpreter an unsigned add)'],
    ),
    'C12': dict(
        title='Compiling any verified program returns Ok or Err and never panics or overruns',
        parts=[
            Part('wfwitness', lambda h: True, lambda h, c, info=None: True, 'vacuity guard (native, exhaustive over the opcodes): the opcode-specific precondition of every per-opcode harness is satisfiable'),
            Part('jit', lambda h: h.startswith('arm_') or h.startswith('enc_') or h in ('resolve_jumps_contract', 'map_register_contract', 'epilogue_contract', 'two_pass_same_arguments', 'jit_memory_new_nostd', 'emit_bytes_contract') or h.startswith('prologue_') or h.startswith('jit_memory_size_'),
                 lambda h, c, info=None: (in_file(c, 'src/jit.rs') and kani.is_panic_check(c)) or 'same arguments' in desc(c) or 'counting pass' in desc(c) or 'is refused' in desc(c) or 'suitable memory' in desc(c) or 'executable buffer is at least' in desc(c) or 'whole number of pages' in desc(c) or 'uses that same size' in desc(c) or 'offset advances by the operand size' in desc(c) or 'written little-endian at offset' in desc(c) or (in_file(c, 'src/shadow.rs') and ('shadow Vec' in desc(c) or 'index out of bounds: the len' in desc(c)))
                 or any(k in desc(c) for k in ('counting pass sizes', 'emitted bytes stay inside', 'fails only for an unregistered', 'both passes agree', 'pc_locs[pc]', 'resolve_jumps succeeds', 'pc_locs indexed', 'no other byte changes', 'rel32 =',
                                             'call target is pc+1+imm', 'next pc equals spec_step', 'every rel32 placeholder is recorded')),
                 'per opcode: no panic in the arm / encoders / map_register under the verifier facts; the counting pass (write_enabled = false) advances offset exactly like the emission pass (so the buffer sized by pass 1 fits pass 2 and the emit_bytes! assert is unreachable); compile error only for an unregistered helper; resolve_jumps indexes pc_locs in range and touches only the 4 displacement bytes'),
            Part('clif', lambda h: True,
                 lambda h, c, info=None: (in_file(c, 'src/cranelift.rs') and kani.is_panic_check(c)) or (h == 'clif_prepare_jump_blocks' and 'ensures:' in desc(c)) or 'placeholder message' in desc(c) or 'cranelift:' in desc(c) or 'cranelift verifier' in desc(c)
                 or any(k in desc(c) for k in ('every block', 'compiles', 'sealed and finalized', 'emitted into a block')),
                 'Cranelift: no panic in CraneliftCompiler::{new, compile_function, build_cfg, prepare_jump_blocks, prelude, translate_program} for a verified instruction; builder discipline (no instruction after a terminator, no unterminated block, operand types) which is what makes define_function().unwrap() succeed; BOUNDED: 3-instruction CFG shapes'),
        ],
        level_text='Proof per instruction for the x86-64 JIT; repeatability = the emitted bytes are a function of (instruction, pc, helper address), which is what the C03 obligations state. Cranelift part: not covered (see not-claimed note).',
        assumptions=['Cranelift: block discipline beyond 3-instruction shapes is not explored (bounded); define_function / finalize_definitions themselves are Cranelift code (trusted)',
                     'JitMemory::new: page rounding, allocation and mprotect are not executed by the verifier',
                     'emit_muldivmod arms, quick tier: the two passes with the real encoders (arm_*_emit) plus the modular semantic proof; the end-to-end byte-level harness runs in the thorough tier only'],
    ),
    'C04': dict(
        title='Cranelift-compiled code computes the same result as the interpreter',
        parts=[
            Part('wfwitness', lambda h: True, lambda h, c, info=None: True, 'vacuity guard (native, exhaustive over the opcodes): the opcode-specific precondition of every per-opcode harness is satisfiable'),
            Part('clif', lambda h: h.startswith('clif_'),
                 lambda h, c, info=None: ('ensures:' in desc(c) and 'trap <=>' not in desc(c) and 'trap precedes' not in desc(c)) or (in_file(c, 'src/cranelift.rs') and kani.is_panic_check(c)),
                 'per opcode: cranelift.rs (compiled verbatim against the stub cranelift_* crates, IR evaluated eagerly) leaves the register file / branch target / data access / helper call that spec_step prescribes; a program containing an eBPF-to-eBPF call is refused; an unregistered helper id is a compile-time error'),
        ],
        level_text='Per-instruction proof against the same ISA spec as C01/C03, with the Cranelift IR semantics ASSUMED as written in /verif/stubs; CFG wiring beyond the shapes of bounded_clif_cfg3_* is not explored.',
        assumptions=['Cranelift 0.127 IR semantics = /verif/stubs/clif-core (trusted), Cranelift code generation trusted', 'instruction under test at pc 0'],
    ),
    'C11': dict(
        title='Cranelift-compiled code never touches memory outside the program regions',
        parts=[
            Part('wfwitness', lambda h: True, lambda h, c, info=None: True, 'vacuity guard (native, exhaustive over the opcodes): the opcode-specific precondition of every per-opcode harness is satisfiable'),
            Part('clif', lambda h: h.startswith('clif_') and any(h[5:].startswith(m) for m in ('ld_abs', 'ld_ind', 'ld_b', 'ld_h', 'ld_w', 'ld_dw_reg', 'st_')),
                 lambda h, c, info=None: any(k in desc(c) for k in ('trap <=>', 'trap precedes', 'exactly one access', 'emits its access')),
                 'per memory opcode, all addresses / widths / region layouts: the emitted bounds check traps iff some byte of the access is outside packet data, metadata buffer and the 512-byte stack, and the trap precedes the access'),
        ],
        level_text='Complete per-opcode proof of insert_bounds_check + reg_load/reg_store/reg_atomic_add + the ld_abs/ld_ind address arm against the stub IR semantics.',
        assumptions=['trapz stops execution before the following instruction (Cranelift semantics, trusted)', 'an empty buffer is passed as a null pointer (lib.rs wrappers, C09)'],
    ),
    'C05': dict(
        title='A verifier-accepted program never crashes the interpreter',
        parts=[
            Part('interp', is_step,
                 any_of(panics_in(INTERP_SRC), ens('instruction slots fetched', 'loop invariant Inv'),
                        lambda h, c, info=None: 'instruction fetch outside the program' in desc(c)),
                 'under Inv and the facts verifier::check establishes (wf_facts), no arm reaches a panic/unreachable!/overflow/bad index, fetches only slots inside the program, and re-establishes Inv'),
            Part('verifier', lambda h: True,
                 lambda h, c, info=None: True,
                 'Verus: verifier::check returns Ok only for well-formed programs; lemma_bridge: well_formed and pc on an instruction boundary imply the facts the step assumes (wf_facts) and that every successor pc is again a boundary inside the program'),
        ],
        level_text='Inductive invariant over the interpreter loop: each arm is panic-free and preserves Inv under the verifier\'s proved postcondition.',
        assumptions=['helpers are arbitrary total functions (a panicking helper is outside the claim)'],
    ),
    'C06': dict(
        title='The default verifier accepts exactly the well-formed programs',
        parts=[
            Part('verifier', lambda h: h in ('check_prog_len', 'check_imm_endian', 'check_load_dw', 'check_jmp_offset', 'check_registers', 'check'),
                 lambda h, c, info=None: True,
                 'Verus: every function of src/verifier.rs (verbatim bodies, loop invariant on check): check(prog).is_ok() <==> well_formed(prog@); helpers Ok <==> their conjunct; no overflow / out-of-range get_insn (a refusal is an error value, never a panic)'),
        ],
        level_text='Unbounded deductive proof (Verus, loop invariant) of the whole of src/verifier.rs against a recursive well-formedness predicate written from the property statement: both directions, all byte strings of all lengths.',
        assumptions=['"lands on a real instruction" is stated as "the target slot has a non-zero opcode"; lemma_walk / lemma_wf_reach (proved) show this coincides with "is an instruction boundary" for well-formed programs'],
    ),
    'C07': dict(
        title='Local calls preserve the caller frame',
        parts=[
            Part('interp', lambda h: h in ('step_call', 'step_exit'),
                 any_of(ens('Ok/Err/exit value', 'register file equals', 'next pc equals', 'call frames and depth', 'frame-size and helper tables'), panics_in(INTERP_SRC)),
                 'call: saves r6-r9 + return address in frame[depth], lowers r10 by the caller frame size, pc = pc+1+imm (either sign), depth 8 => Err; exit: restores r6-r9, r10, pc'),
            Part('interp', lambda h: is_step(h) and h not in ('step_call', 'step_exit'),
                 ens('call frames and depth'),
                 'frame condition: no other instruction touches saved frames or the depth (only the frame-size registration at a function entry)'),
            Part('interp', lambda h: h in ('stack_validate_step', 'stack_validate_head'), lambda h, c, info=None: 'ensures:' in desc(c) or (in_file(c, 'src/stack.rs') and kani.is_panic_check(c)),
                 'stack_validate (loop body + head, verbatim): frame sizes are registered for pc 0 and for the target of every LOCAL call, with the calculator\'s value for that entry'),
            Part('jit', lambda h: h == 'arm_call_local', lambda h, c, info=None: 'ensures:' in desc(c),
                 'JIT emit_local_call against the x86 semantics: r6-r9 pushed, call to pc+1+imm, popped in reverse, rsp balanced and equally aligned in the callee (r10 lowering: known finding jit-local-call-r10)'),
            Part('vmapi', lambda h: h in ('mbuff_set_stack_usage_calculator', 'mbuff_set_program', 'mbuff_execute_program'), lambda h, c, info=None: 'ensures:' in desc(c),
                 'VM API: the registered stack-usage calculator is kept whatever the order of registration and loading, the frame sizes in force are those computed from the loaded program with it, and the interpreter is run with them'),
        ],
        level_text='Per-step contracts with explicit frame conditions for every arm; pairing of a call with its return follows by induction on nesting (stated, not mechanised).',
        assumptions=['call/return pairing lemma (induction on nesting) is a paper argument over the proved frame conditions',
                     'JIT emit_local_call part: see C03 unit'],
    ),
    'C08': dict(
        title='Helper calls follow the documented contract (interpreter part)',
        parts=[
            Part('interp', lambda h: h == 'step_call',
                 any_of(ens('helper called exactly', 'frame-size and helper tables', 'register file equals', 'Ok/Err/exit value'), panics_in(INTERP_SRC)),
                 'CALL imm: table consulted with key imm as u32; registered => called exactly once with (r1..r5), r0 = result, every other register unchanged; unregistered => Err and no call'),
            Part('interp', lambda h: is_step(h) and h != 'step_call', ens('helper called exactly'),
                 'no other instruction calls a helper'),
            Part('vmapi', lambda h: h == 'mbuff_register', lambda h, c, info=None: 'ensures:' in desc(c),
                 'register_helper: the function registered under an id is the one most recently registered for it; other ids keep theirs'),
            Part('clif', lambda h: h == 'clif_call', lambda h, c, info=None: 'ensures:' in desc(c),
                 'Cranelift CALL: helper called once with (r1..r5), result in r0, unknown id / non-helper call => compile error'),
            Part('jit', lambda h: h in ('arm_call_helper', 'arm_call_local') or h.startswith('prologue_'), lambda h, c, info=None: 'ensures:' in desc(c) and (h != 'arm_call_local' or 'rsp modulo 16' in desc(c)),
                 'JIT CALL imm against the x86 semantics: callee = function registered under imm as u32, (r1..r5) in rdi,rsi,rdx,rcx,r8, r6-r10 in callee-saved registers, unregistered id => compile error; rsp is 0 modulo 16 inside the generated code (prologue) and stays so across local calls'),
        ],
        level_text='Contract of the CALL arm against a recording helper, for all ids, arguments and depths.',
        assumptions=['JIT and Cranelift call sites: units jit / cranelift'],
    ),
    'C09': dict(
        title='Each VM kind presents the documented execution context',
        parts=[
            Part('interp', lambda h: h == 'interp_prologue', lambda h, c, info=None: 'ensures:' in desc(c) or (in_file(c, INTERP_SRC) and kani.is_panic_check(c)),
                 'interpreter prologue (verbatim): r1 = mbuff | mem | 0, r10 = top of a private zeroed 512-byte stack, other registers 0, no program => Err'),
            Part('vmapi', lambda h: h.startswith(('bounded_fixed_', 'raw_', 'nodata_', 'mbuff_execute')), lambda h, c, info=None: 'ensures:' in desc(c) or (in_file(c, 'src/lib.rs') and kani.is_panic_check(c)),
                 'VM wrappers (verbatim methods of lib.rs): what each VM kind hands to the interpreter / compiled code; fixed-metadata VM writes &packet[0] and one-past-the-end at the configured offsets before every execution (interpreter and Cranelift), passes the offsets to the JIT prologue - offsets <= 120 (BOUNDED)'),
            Part('jit', lambda h: h.startswith('prologue_'), lambda h, c, info=None: 'ensures:' in desc(c) and 'rsp modulo 16' not in desc(c) or (in_file(c, 'src/jit.rs') and kani.is_panic_check(c)),
                 'JIT prologue for the three (use_mbuff, update_data_ptr) modes against the x86 semantics: r1, r10, 512-byte stack, stores of mem / mem+len at mbuff+offsets'),
            Part('interp', lambda h: h.startswith(('step_ld_abs', 'step_ld_ind')), ens('memory access log', 'register file equals'),
                 'interpreter: absolute / indirect loads address the packet data (base = start of the packet, + imm [+ src]) and put the value in r0'),
            Part('jit', lambda h: h.startswith(('arm_ld_abs', 'arm_ld_ind')), lambda h, c, info=None: 'data access equals spec_step' in desc(c) or 'packet base register' in desc(c),
                 'JIT: absolute / indirect loads address the packet data and leave the packet base register as found (so the NEXT such load still does)'),
            Part('clif', lambda h: h.startswith(('clif_ld_abs', 'clif_ld_ind')), lambda h, c, info=None: 'data access equals spec_step' in desc(c),
                 'Cranelift: absolute / indirect loads address the packet data'),
            Part('clif', lambda h: h == 'clif_prelude', lambda h, c, info=None: 'ensures:' in desc(c) or (in_file(c, 'src/cranelift.rs') and kani.is_panic_check(c)),
                 'Cranelift function prelude (build_function_prelude, verbatim): r1 = mbuff | mem | 0 from the four ABI parameters, r10 = top of a 512-byte stack slot, instruction 0 reached without memory access'),
        ],
        level_text='Proof of the interpreter prologue, of every VM wrapper method, of the JIT prologue and of the Cranelift function prelude; the fixed-metadata buffer is exercised with offsets <= 120 (bounded, labelled).',
        assumptions=['FixedMbuff offsets bounded by 120 (real Vec<u8> allocation under CBMC)', 'Cranelift: the stack slot semantics (stack_addr of a 512-byte ExplicitSlot) is that of the stub crates'],
    ),
    'C10': dict(
        title='Loading, verifying and compiling stay consistent over any history of API calls',
        parts=[
            Part('vmapi', lambda h: True, lambda h, c, info=None: 'ensures:' in desc(c) or (in_file(c, 'src/lib.rs') and kani.is_panic_check(c)),
                 'representation invariant I (program accepted by the verifier in force, frame sizes computed from it, compiled artefacts compiled from it) assumed before and proved after every public method of the four VM types; failed set_program/set_verifier/set_stack_usage_calculator/compile leave the abstract view unchanged; no-program / not-compiled errors'),
        ],
        level_text='Inductive representation invariant over the verbatim methods of lib.rs: holds after every finite history of API calls; execute_* take &self and the shadows have no interior mutability, so results are a function of (program, helpers, buffers).',
        assumptions=['re-registering a helper after compiling does not recompile: compiled code keeps the helper addresses of compile time (not part of I)'],
    ),
    'C13': dict(
        title='The assembler emits exactly the encoding each mnemonic and operand list denotes',
        parts=[
            Part('asm', lambda h: h.startswith(('insn_contract', 'encode_contract', 'assemble_internal_contract', 'bounded_')),
                 lambda h, c, info=None: 'ensures:' in desc(c) or (in_file(c, 'src/assembler.rs') and kani.is_panic_check(c)),
                 'insn: Ok <=> operands in range, fields as written; encode: == documented operand shape for every (class, opcode, operand list), every other shape is an error; assemble_internal: one slot per instruction, two for lddw (high half in the second), first error aborts with no output'),
            Part('asmtable', lambda h: True, lambda h, c, info=None: True,
                 'mnemonic table (make_instruction_map is a closed term): every documented mnemonic assembles to its opcode/shape, malformed lines are rejected - exhaustive native evaluation through assemble()'),
            Part('codec', lambda h: h in ('to_array_is_reference_encoding',), real_or_harness, 'Insn::to_array (C17)'),
        ],
        level_text='Everything after the combinator grammar is proved (Kani, all operand values, one harness per operand count); the mnemonic table is evaluated exhaustively; text -> Instruction (combine grammar) is trusted.',
        assumptions=[],
    ),
    'C14': dict(
        title='The assembler is total',
        parts=[
            Part('asm', lambda h: True,
                 lambda h, c, info=None: ('ensures' not in desc(c)) and (kani.is_panic_check(c) or 'placeholder message' in desc(c) or c.get('category') in ('assertion', 'bounds_check', 'pointer_dereference')),
                 'no panic in insn / operands_tuple / encode / assemble_internal for every Instruction value, nor in the closure bodies of integer() and register() whatever std\'s parsers answer (an unwrap on their Err is a failed obligation)'),
        ],
        level_text='Proof of the rbpf-authored code of the assembler (Kani); combine\'s grammar machinery and std\'s integer parsers are assumed total; termination ("bounded time") is not verified by Kani.',
        assumptions=['combine is panic-free and terminating (trusted)', 'termination is not verified'],
    ),
    'C15': dict(
        title='Disassembly reports every instruction\'s true fields and never panics',
        parts=[
            Part('disasm', lambda h: True,
                 lambda h, c, info=None: in_file(c, 'src/disassembler.rs') and kani.is_panic_check(c) or 'ensures:' in desc(c) or 'instruction fetch outside' in desc(c),
                 'per opcode (concrete opcode, all registers/offsets/immediates symbolic): one entry per instruction, fields equal the encoded fields, lddw halves merged, name == documented mnemonic, text == documented syntax (canonical form: literal characters + printed numbers), no panic (incl. off = -32768), fetches inside the program'),
        ],
        level_text='Every arm of the disassembler loop body plus its renderer, extracted verbatim, proved against a mnemonic/syntax table written from the documentation, for all operand values; core::fmt trusted; the loop closure (one step per instruction) is the induction argument of C01.',
        assumptions=[],
    ),
    'C17': dict(
        title='Instruction encoding and decoding are inverse, and all encoders agree',
        parts=[
            Part('codec', lambda h: not h.startswith('bounded_') and not h.startswith('helper_'), real_or_harness,
                 'real crate linked as a dependency: to_array == reference LE encoding, get_insn o to_array = id and to_array o get_insn = id on all 2^64 slots, to_vec == to_array, get_insn at any index, panic exactly outside the program, every builder constructor x symbolic fields == Insn::to_array of the named opcode, push appends the same bytes'),
            Part('insnvec', lambda h: True, lambda h, c, info=None: True,
                 'Verus, every program length: the loop of ebpf::to_insn_vec (verbatim) returns len/8 entries, entry i = decode of slot i; get_insn by its Kani-proved contract; the documented panic is unreachable for lengths that are multiples of 8'),
            Part('codec', lambda h: h.startswith('bounded_'), real_or_harness,
                 'BOUNDED cross-check on the real crate (3 slots): to_insn_vec loop'),
            Part('asm', lambda h: h.startswith(('insn_contract', 'encode_contract')),
                 lambda h, c, info=None: 'ensures:' in desc(c),
                 '"the same bytes as ... the assembler": assembler::insn accepts exactly the field values an Insn can hold (every i16 offset, every i32 immediate, registers 0-15) and returns them unchanged; encode places them as the operand shape says (shared with C13) - the bytes then come from Insn::to_array, proved above'),
        ],
        level_text='Loop-free full-domain Kani harnesses over the real public API (complete proofs); the to_insn_vec loop is proved for every length by Verus (get_insn through its contract), with a 3-slot bounded Kani harness on the real crate as a cross-check.',
        assumptions=['insnvec: get_insn is used through its contract (proved by Kani in unit codec), not its body'],
    ),
    'C19': dict(
        title='Built-in helpers compute their documented functions',
        parts=[
            Part('codec', lambda h: h in ('helper_gather_bytes', 'helper_bpf_trace_printf_count'), real_or_harness, 'Kani, real crate, full domain: gather_bytes; bpf_trace_printf returns 29 + the hexadecimal digit counts of its last three arguments (the length of the line it prints)'),
            Part('helpers', lambda h: True, lambda h, c, info=None: True,
                 'Verus: memfrob (XORs exactly [ptr, ptr+len) once, everything else unchanged), strcmp (null => all-ones; else absdiff at the first differing/terminating position; lemma: 0 <=> equal strings), rand tail (min < max => min <= r <= max, no overflow)'),
        ],
        level_text='Proof for gather_bytes and the byte count of bpf_trace_printf (Kani, complete), memfrob / strcmp (Verus loop invariants over an abstract byte memory), the arithmetic of rand (Verus). sqrti is floating point and stays UNVERIFIED.',
        assumptions=['sqrti: f64 sqrt - outside both tools (UNVERIFIED)', 'bpf_trace_printf: that println! emits exactly the format string with `{:#x}` = 0x + hexadecimal digits is core::fmt (trusted)',
                     'bpf_time_getns is not part of the statement'],
    ),
    'C20': dict(
        title='Behaviour is the same with and without the standard library',
        parts=[
            Part('cfgdiff', lambda h: True, lambda h, c, info=None: True,
                 'both feature configurations are cfg-evaluated; every verified span that is byte-identical is covered by its one proof (C01..C19); the spans that differ (lib.rs VM methods) are proved again on the no_std tree against the same contracts; JitMemory::new (no_std) has its own contract; every cfg(std) site has a recorded story'),
        ],
        level_text='Both configurations refine the same specifications: identical text is proved once, differing text twice. The verdicts of C01..C19 are prerequisites (this check does not re-run them).',
        assumptions=['C01..C19 hold (their checks are separate)'],
    ),
    'C18': dict(
        title='Atomic add (sequential contract + single atomic RMW)',
        parts=[
            Part('interp', lambda h: h in ('step_st_w_xadd', 'step_st_dw_xadd'),
                 any_of(ens('Ok/Err/exit value', 'memory access log', 'register file equals'), panics_in(INTERP_SRC)),
                 'aligned & allowed => exactly one AtomicAdd(addr, width, src truncated) and nothing else; misaligned => Err with empty access log'),
            Part('clif', lambda h: h in ('clif_st_w_xadd', 'clif_st_dw_xadd'), lambda h, c, info=None: 'ensures:' in desc(c),
                 'Cranelift: a single atomic_rmw Add of the right width and value, after the bounds check'),
            Part('jit', lambda h: h in ('arm_st_w_xadd', 'arm_st_dw_xadd'), lambda h, c, info=None: 'ensures:' in desc(c),
                 'JIT: the bytes decode to exactly one `lock add [dst+off], src` of the right width (the f0 prefix is part of the obligation)'),
        ],
        level_text='Proof of the sequential contract and of "exactly one hardware-atomic read-modify-write, nothing else"; the schedule quantifier is NOT explored.',
        assumptions=['atomicity of a single AtomicU32/AtomicU64::fetch_add / `lock add` under any interleaving is the hardware/core guarantee and is ASSUMED (Kani has no threads; no schedule is explored)'],
    ),
}


# ---------------------------------------------------------------------------

def replay_tool():
    """The replay tool links the crate under test.  For /repo itself it is built in place; for a
    scratch tree (VERIF_REPO) a copy of the tool is built against that tree."""
    src = os.path.join(VERIF, 'replay')
    if os.path.realpath(REPO) == '/repo':
        d = src
    else:
        import shutil
        d = os.path.join(WORK, 'replay_tool')
        os.makedirs(os.path.join(d, 'src'), exist_ok=True)
        os.makedirs(os.path.join(d, '.cargo'), exist_ok=True)
        for fn in os.listdir(os.path.join(src, 'src')):
            shutil.copy(os.path.join(src, 'src', fn), os.path.join(d, 'src', fn))
        shutil.copy(os.path.join(src, '.cargo/config.toml'), os.path.join(d, '.cargo/config.toml'))
        with open(os.path.join(src, 'Cargo.toml')) as f:
            t = f.read().replace('path = "/repo"', 'path = "%s"' % REPO)
        with open(os.path.join(d, 'Cargo.toml'), 'w') as f:
            f.write(t)
        for fn in os.listdir(os.path.join(d, 'src')):
            p = os.path.join(d, 'src', fn)
            with open(p) as f:
                t = f.read()
            t2 = t.replace('include!("../../spec/', 'include!("%s/spec/' % VERIF)
            if t2 != t:
                with open(p, 'w') as f:
                    f.write(t2)
        if os.path.exists(os.path.join(REPO, 'Cargo.lock')):
            shutil.copy(os.path.join(REPO, 'Cargo.lock'), os.path.join(d, 'Cargo.lock'))
    p = subprocess.run(['cargo', 'build', '--offline', '-q'], cwd=d, capture_output=True, text=True, env=kani.env_offline())
    if p.returncode != 0:
        raise Undecided('replay tool does not build against %s:\n%s' % (REPO, p.stderr[-3000:]))
    return os.path.join(d, 'target/debug/replay')


def replay_finding(fid):
    exe = replay_tool()
    p = subprocess.run([exe, 'finding', fid], capture_output=True, text=True, timeout=600)
    return p.stdout.strip()


def check(pid, tier, seed, use_cache, jobs, t0):
    prop = PROPS[pid]
    by_unit = {}
    for part in prop['parts']:
        by_unit.setdefault(part.unit, []).append(part)
    obligations = []       # dicts
    failed = []
    undecided = []
    known_lines = []
    unit_meta = {}
    samples = []
    for unit_name, parts in by_unit.items():
        unit = U.UNITS[unit_name]
        res = unit['run'](unit_name, parts, tier, use_cache, jobs, pid=pid)
        unit_meta[unit_name] = res['meta']
        obligations += res['obligations']
        known_lines += res.get('known', [])
        samples += res.get('samples', [])
    for o in obligations:
        if o['status'] == 'failed':
            failed.append(o)
        elif o['status'] == 'undecided':
            undecided.append(o)
    # decision ---------------------------------------------------------
    violations = []
    if failed:
        # group by (unit, harness)
        groups = {}
        for o in failed:
            groups.setdefault((o['unit'], o['harness']), []).append(o)
        n_replayed = 0
        for (unit_name, h), obs in groups.items():
            # counterexample extraction re-runs the harness (concrete playback): at most 3 per check; the other
            # violations are still reported, with the failed obligations and the verifier output in their replay file
            path = write_replay(pid, unit_name, h, obs, extract=n_replayed < 3)
            if U.UNITS[unit_name].get('witness'):
                n_replayed += 1
            violations.append((path, unit_name, h, obs))
    # findings that are logical consequences of a finding of another property (no harness of this check fails for
    # them): reproduced on the real crate and printed, nothing is carved out for them
    try:
        with open(os.path.join(VERIF, 'known_findings.json')) as f:
            for kf in json.load(f)['findings']:
                if kf.get('status') == 'open' and kf.get('derived_from') and pid in kf.get('properties', []):
                    rp = replay_finding(kf['replay_id']) if kf.get('replay_id') else ''
                    known_lines.append('KNOWN-FINDING: property=%s %s [%s; consequence of %s, no obligation of this check is weakened for it; real crate: %s]' % (pid, kf['what'], kf['id'], kf['derived_from'], rp))
    except (OSError, ValueError, KeyError):
        pass
    wall = time.time() - t0
    discharged = sum(1 for o in obligations if o['status'] == 'ok')
    ev = dict(
        property_id=pid, tier=tier, seed=seed, level='proof',
        coverage=dict(
            obligations=len(obligations), discharged=discharged,
            checker_cmd=' ;; '.join(m.get('cmd') or '' for m in unit_meta.values()),
            trusted_base=COMMON_TRUSTED + sum((m.get('trusted', []) for m in unit_meta.values()), []),
            samples=samples[:6],
            failed=[dict(unit=o['unit'], harness=o['harness'], obligation=o['name']) for o in failed][:50],
            undecided=[dict(unit=o['unit'], harness=o['harness'], obligation=o['name']) for o in undecided][:50],
            units={k: {kk: vv for kk, vv in m.items() if kk not in ('trusted',)} for k, m in unit_meta.items()},
            parts=[dict(unit=p.unit, what=p.what) for p in prop['parts']],
            exhaustive=False,
            explanation=prop['level_text'],
        ),
        assumptions=prop['assumptions'] + sum((m.get('assumptions', []) for m in unit_meta.values()), []),
        wall_s=round(wall, 2),
        violations=len(violations),
        known_findings=known_lines,
    )
    evdir = os.path.join(os.environ['VERIF_WORK'], 'evidence') if os.environ.get('VERIF_WORK') else os.path.join(VERIF, 'evidence')
    os.makedirs(evdir, exist_ok=True)
    with open(os.path.join(evdir, pid + '.json'), 'w') as f:
        json.dump(ev, f, indent=1)
    for line in known_lines:
        print(line)
    print('property=%s tier=%s obligations=%d discharged=%d failed=%d undecided=%d wall=%.1fs' % (
        pid, tier, len(obligations), discharged, len(failed), len(undecided), wall))
    if violations:
        for path, unit_name, h, obs in violations:
            tail = '' if replay_has_input(path) else ' no-failing-input-found'
            print('VIOLATION property=%s replay=%s%s' % (pid, path, tail))
            for o in obs[:5]:
                print('    failed obligation: %s/%s :: %s' % (unit_name, h, o['name']))
        return 1
    if undecided or len(obligations) == 0:
        for o in undecided[:10]:
            print('    undecided: %s/%s :: %s (%s)' % (o['unit'], o['harness'], o['name'], o.get('why', '')))
        print('UNDECIDED property=%s' % pid)
        return 2
    return 0


def replay_has_input(path):
    try:
        with open(path) as f:
            return bool(json.load(f).get('reproduced_on_real_code'))
    except Exception:
        return False


def write_replay(pid, unit_name, h, obs, extract=True):
    d = os.path.join(WORK, 'replay')
    os.makedirs(d, exist_ok=True)
    path = os.path.join(d, '%s_%s_%s.json' % (pid, unit_name, re.sub(r'[^A-Za-z0-9_.-]', '_', h)))
    rec = dict(property=pid, unit=unit_name, harness=h,
               failed_obligations=[dict(name=o['name'], location=o.get('location'), backend=o['backend']) for o in obs],
               verifier_output=obs[0].get('output', ''),
               witness=None, reproduced_on_real_code=False, replay_transcript=None)
    unit = U.UNITS[unit_name]
    if unit.get('witness') and not extract:
        rec['replay_transcript'] = 'counterexample not extracted: three other violations of this run already carry one'
    elif unit.get('witness'):
        try:
            w = unit['witness'](h, obs)
            rec.update(w)
        except Exception as e:  # replay is best effort, the violation stands
            rec['replay_transcript'] = 'witness extraction failed: %r' % (e,)
    with open(path, 'w') as f:
        json.dump(rec, f, indent=1)
    return path


def replay(pid, path):
    with open(path) as f:
        rec = json.load(f)
    print(json.dumps({k: v for k, v in rec.items() if k != 'verifier_output'}, indent=1)[:6000])
    if rec.get('witness') and rec.get('unit') in ('interp', 'jit', 'clif'):
        import tempfile
        exe = replay_tool()
        with tempfile.NamedTemporaryFile('w', suffix='.json', delete=False) as f:
            json.dump(rec['witness'], f)
        p = subprocess.run([exe, 'step', f.name], capture_output=True, text=True, timeout=600)
        os.unlink(f.name)
        print(p.stdout.strip())
        return 1 if p.stdout.startswith('REPRODUCED') else 0
    return 1 if rec.get('reproduced_on_real_code') else 0
