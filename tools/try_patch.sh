#!/bin/sh
# usage: tools/try_patch.sh <patch.diff> <property>...   (applies to /repo, runs the checks, ALWAYS reverts)
patch="$1"; shift
cd /repo || exit 2
git diff --quiet || { echo "/repo working tree is dirty"; exit 2; }
git apply "$patch" || { echo "patch does not apply"; exit 2; }
cd /verif
for p in "$@"; do
  out=$(./check "$p" 2>&1); rc=$?
  echo "== $p rc=$rc"; echo "$out" | grep -E "VIOLATION|failed obligation|UNDECIDED|undecided:|^property=" | cut -c1-260 | head -12
done
git -C /repo checkout -- .
