"""Run Kani on a generated crate and turn its JSON export into obligations."""
import json
import os
import re
import subprocess
import time

KANI_FLAGS = ['-Z', 'function-contracts', '-Z', 'stubbing', '-Z', 'unstable-options',
              '--no-assertion-reach-checks', '--output-format', 'terse']

# check categories / descriptions that are Rust panics (C05/C12/C14/C15 "never panics")
PANIC_PAT = re.compile(
    r'attempt to|index out of bounds|unreachable|called `Option::unwrap|called `Result::unwrap|'
    r'range (start|end) index|slice index|panicked|explicit panic|assertion failed|'
    r'copy_from_slice|division by zero|remainder with a divisor|not yet implemented|not implemented')


class ToolFailure(Exception):
    """Build failure, timeout, crash: undecided (exit 2), never a violation."""


def env_offline():
    e = dict(os.environ)
    e['CARGO_NET_OFFLINE'] = 'true'
    e.pop('RUSTUP_TOOLCHAIN', None)
    return e


def build_only(crate):
    p = subprocess.run(['cargo', 'kani', '--only-codegen', '-Z', 'function-contracts', '-Z', 'stubbing'],
                       cwd=crate, env=env_offline(), capture_output=True, text=True)
    if p.returncode != 0:
        raise ToolFailure('generated crate %s does not compile:\n%s' % (crate, (p.stdout + p.stderr)[-4000:]))


def _limit_memory():
    # one runaway CBMC must not take the machine down (62 GB, no swap): cap the address space of every process
    # of the run at 32 GiB; Kani then reports the harness as out of memory (= undecided), never as a failure
    import resource
    lim = 32 << 30
    resource.setrlimit(resource.RLIMIT_AS, (lim, lim))


def run(crate, harnesses, jobs=16, harness_timeout=900, total_timeout=3600, prefix='', extra=None, tag='run'):
    """harnesses: list of fully qualified harness names (prefix added).  Returns
    dict name -> dict(status, seconds, checks=[...], stats={...})."""
    out_json = os.path.join(crate, 'kani_%s.json' % tag)
    log = os.path.join(crate, 'kani_%s.log' % tag)
    if os.path.exists(out_json):
        os.remove(out_json)
    cmd = ['cargo', 'kani'] + KANI_FLAGS + ['-j', str(jobs), '--harness-timeout', '%ds' % harness_timeout,
                                            '--export-json', out_json, '--exact']
    for h in harnesses:
        cmd += ['--harness', prefix + h]
    if extra:
        cmd += extra
    t0 = time.time()
    with open(log, 'w') as lf:
        # own process group, so that a timeout takes the CBMC grandchildren down with it; temporary files of the
        # tools (the CNF files handed to kissat are hundreds of MB) go to a directory of this run, removed below
        env = env_offline()
        tmpd = os.path.join(os.path.dirname(os.path.abspath(crate)), 'tmp_%s' % tag)
        os.makedirs(tmpd, exist_ok=True)
        env['TMPDIR'] = tmpd
        p = subprocess.Popen(cmd, cwd=crate, env=env, stdout=lf, stderr=subprocess.STDOUT,
                             preexec_fn=_limit_memory, start_new_session=True)
        try:
            p.wait(timeout=total_timeout)
        except subprocess.TimeoutExpired:
            import signal
            try:
                os.killpg(p.pid, signal.SIGKILL)
            except OSError:
                pass
            p.wait()
            import shutil
            shutil.rmtree(tmpd, ignore_errors=True)
            raise ToolFailure('cargo kani exceeded %ds on %s' % (total_timeout, crate))
        import shutil
        shutil.rmtree(tmpd, ignore_errors=True)
    wall = time.time() - t0
    if not os.path.exists(out_json):
        with open(log) as lf:
            tail = lf.read()[-6000:]
        raise ToolFailure('cargo kani produced no result file for %s (exit %s):\n%s' % (crate, p.returncode, tail))
    with open(out_json) as f:
        d = json.load(f)
    os.remove(out_json)
    stats = {c['harness_id']: c.get('cbmc_stats', {}) for c in d.get('cbmc', [])}
    errs = {e['harness_id']: e for e in d.get('error_details', [])}
    res = {}
    for r in d['verification_results']['results']:
        hid = r['harness_id']
        short = hid[len(prefix):] if hid.startswith(prefix) else hid
        res[short] = dict(status=r['status'], seconds=r['duration_ms'] / 1000.0, checks=r['checks'],
                          stats=stats.get(hid, {}), error=errs.get(hid, {}))
    missing = [h for h in harnesses if h not in res]
    return dict(results=res, missing=missing, wall=wall, cmd=' '.join(cmd), log=log,
                tools=d.get('tools', {}))


def check_file(c):
    return (c.get('location') or {}).get('file', '') or ''


def is_panic_check(c):
    return c.get('category') in ('assertion', 'arithmetic_overflow', 'unreachable', 'bounds_check',
                                 'pointer_dereference', 'division-by-zero', 'overflow') \
        and bool(PANIC_PAT.search(c.get('description', '')))


def playback(crate, harness, prefix='', timeout=900, want=None, extra=None):
    """Counterexample of one failing harness as concrete values.  First in WITNESS MODE (a copy of the crate
    with `WITNESS_MODE = true`: the harness additionally assumes a small, re-basable world), then - if the
    failure does not exist there - unconstrained.  Returns (values, raw text)."""
    import shutil
    lib = os.path.join(crate, 'src', 'lib.rs')
    try:
        with open(lib) as f:
            txt = f.read()
    except OSError:
        txt = ''
    if 'pub const WITNESS_MODE: bool = false;' in txt:
        wit = crate.rstrip('/') + '_wit_%d' % os.getpid()
        try:
            shutil.copytree(crate, wit, ignore=shutil.ignore_patterns('target*', '*.log', '*.json', '.lock'))
            with open(os.path.join(wit, 'src', 'lib.rs'), 'w') as f:
                f.write(txt.replace('pub const WITNESS_MODE: bool = false;', 'pub const WITNESS_MODE: bool = true;'))
            vals, raw = _playback(wit, harness, prefix, timeout, want, extra)
            if vals:
                return vals, '[witness mode: small-world assumption]\n' + (raw or '')
        finally:
            shutil.rmtree(wit, ignore_errors=True)
    return _playback(crate, harness, prefix, timeout, want, extra)


def _playback(crate, harness, prefix='', timeout=900, want=None, extra=None):
    """Re-run one failing harness with concrete playback; return (values, raw text).
    values = list of byte lists in kani::any() order, taken from the test Kani prints for the
    failing check whose description contains `want` (else the first failing assertion)."""
    cmd = ['cargo', 'kani', '-Z', 'function-contracts', '-Z', 'stubbing', '-Z', 'unstable-options', '-Z', 'concrete-playback',
           '--concrete-playback=print', '--no-assertion-reach-checks', '--exact', '--harness', prefix + harness,
           '--target-dir', os.path.join(crate, 'target_playback_%d' % os.getpid())] + (extra or [])
    try:
        p = subprocess.run(cmd, cwd=crate, env=env_offline(), capture_output=True, text=True, timeout=timeout)
    except subprocess.TimeoutExpired:
        return None, 'concrete playback timed out'
    finally:
        import shutil
        shutil.rmtree(os.path.join(crate, 'target_playback_%d' % os.getpid()), ignore_errors=True)
    txt = p.stdout + p.stderr
    blocks = []
    for m in re.finditer(r'/// Check for `(\w+)`: "(.*?)"\s*\n(.*?)let concrete_vals: Vec<Vec<u8>> = vec!\[(.*?)\];', txt, re.S):
        blocks.append((m.group(1), m.group(2), m.group(4)))
    pick = None
    for kind, d, body in blocks:
        if kind != 'cover' and want and want[:60] in d:
            pick = body
            break
    if pick is None:
        for kind, d, body in blocks:
            if kind != 'cover':
                pick = body
                break
    if pick is None:
        return None, txt[-6000:]
    vals = []
    for vm in re.finditer(r'vec!\[([0-9,\s]*)\]', pick):
        body = vm.group(1).strip()
        vals.append([int(x) for x in body.split(',') if x.strip()] if body else [])
    return vals, txt[-12000:]
