#!/bin/bash
# tools/spec_sanity.sh [per-opcode-count] [seeds...] : ORACLE cross-check, informational only (decides no property, never
# prints VIOLATION).  Runs pseudo-random single-instruction witnesses for every supported opcode on the REAL interpreter of
# /repo (through the replay tool, which links the real crate) and compares each outcome with spec/ebpf_sem.rs::spec_step -
# the specification the C01/C02/C05/C07/C18 contracts are written against.  Every disagreement must be explained by an
# open known finding; an unexplained one means the SPECIFICATION (or the replay builder) needs a second look.
# Exit 0: no unexplained disagreement; exit 2: at least one (never 1: this is not a property check).
set -u
cd "$(dirname "$0")/../replay" || exit 2
cp /repo/Cargo.lock . 2>/dev/null
cargo build --offline -q --release 2>/dev/null || { echo "spec-sanity: replay tool does not build"; exit 2; }
PER=${1:-1000}; shift 2>/dev/null
SEEDS=${@:-1 2 3}
rc=0
for s in $SEEDS; do
  out=$(./target/release/replay spec-sanity "$PER" "$s")
  echo "$out" | grep -E "SANITY-UNEXPLAINED" | cut -c1-400
  echo "seed=$s $(echo "$out" | grep SANITY-TOTAL)"
  echo "$out" | grep -q "unexplained: 0)" || rc=2
done
exit $rc
