// Shadows: names the extracted rbpf text refers to, defined by the harness so
// that the text compiles UNCHANGED.  Everything here is trusted-base (listed in
// the evidence under `assumptions`); none of it is extracted from /repo.

/// `crate::lib::*` as the real crate exports it, with the containers and the
/// error type replaced by abstract versions.
pub mod lib {
    pub use core::any::Any;
    pub use core::convert::TryInto;
    pub use core::mem;
    pub use core::mem::ManuallyDrop;
    pub use core::ptr;
    pub use std::boxed::Box;
    pub use std::string::{String, ToString};
    pub use std::vec;
    pub use std::vec::Vec;
    pub use std::collections::BTreeMap;
    pub use super::{Error, ErrorKind, HashMap, HashSet, Region, MemAccessV, MemWriteV, AtomicAddV};
}

/// Only `is_err()` is observable in the properties: the error carries nothing.
#[derive(Debug)]
pub struct Error;
#[derive(Debug)]
pub enum ErrorKind {
    Other,
}
impl Error {
    pub fn other<T>(_msg: T) -> Error {
        Error
    }
    pub fn new<T>(_k: ErrorKind, _msg: T) -> Error {
        Error
    }
}
#[cfg(kani)]
impl kani::Arbitrary for Error {
    fn any() -> Self {
        Error
    }
}

/// What `format!` evaluates to here: its arguments are still evaluated (so
/// arithmetic inside them is still checked for overflow), the text is dropped.
pub struct FmtRecord;
#[macro_export]
macro_rules! format {
    ($fmt:literal $(, $arg:expr)* $(,)?) => {{
        $( let _ = &$arg; )*
        $crate::shadow::FmtRecord
    }};
}

/// A byte slice seen as (address, length).  CBMC's pointer-to-integer cast is
/// a fixed encoding, the properties quantify over ALL addresses, so the base
/// is a symbolic integer.  Invariant (true of every Rust slice): base+len does
/// not wrap.
#[derive(Clone, Copy, Debug, PartialEq, Eq)]
pub struct Region {
    pub base: u64,
    pub len: usize,
}
impl Region {
    pub fn as_ptr(&self) -> *const u8 {
        self.base as *const u8
    }
    pub fn len(&self) -> usize {
        self.len
    }
    pub fn is_empty(&self) -> bool {
        self.len == 0
    }
}

/// Abstract map: the harness decides what the single lookup of this step
/// returns and records which key was asked for.
pub struct HashMap<K, V> {
    pub val: Option<V>,
    pub looked: core::cell::Cell<Option<K>>,
    pub nlook: core::cell::Cell<u8>,
    /// the (single) insertion of this unit
    pub inserted: Option<(K, V)>,
    pub ninsert: u8,
}
impl<K: Copy, V> HashMap<K, V> {
    pub fn new() -> Self {
        HashMap { val: None, looked: core::cell::Cell::new(None), nlook: core::cell::Cell::new(0), inserted: None, ninsert: 0 }
    }
    pub fn with(val: Option<V>) -> Self {
        HashMap { val, looked: core::cell::Cell::new(None), nlook: core::cell::Cell::new(0), inserted: None, ninsert: 0 }
    }
    pub fn insert(&mut self, k: K, v: V) -> Option<V> {
        self.inserted = Some((k, v));
        if self.ninsert < 250 {
            self.ninsert += 1;
        }
        None
    }
    pub fn get(&self, k: &K) -> Option<&V> {
        self.looked.set(Some(*k));
        let n = self.nlook.get();
        self.nlook.set(if n < 250 { n + 1 } else { n });
        self.val.as_ref()
    }
}

/// Abstract set: one arbitrary member (or none).  The only use in the
/// extracted text is `iter().any(pred)`; `any` over a set is the disjunction
/// over its members, so one arbitrary member decides the existential.
pub struct HashSet<T> {
    pub member: Option<T>,
}
pub struct OneIter<'a, T>(pub Option<&'a T>);
impl<T> HashSet<T> {
    pub fn iter(&self) -> OneIter<'_, T> {
        OneIter(self.member.as_ref())
    }
}
impl<'a, T> OneIter<'a, T> {
    pub fn any<F: FnMut(&'a T) -> bool>(self, mut f: F) -> bool {
        match self.0 {
            Some(x) => f(x),
            None => false,
        }
    }
}

// ------------------------------------------------------------ abstract memory

#[derive(Clone, Copy, Debug, PartialEq, Eq)]
pub enum AccessKind {
    Load,
    Store,
    AtomicAdd,
}

#[derive(Clone, Copy, Debug, PartialEq, Eq)]
pub struct AccessRec {
    pub kind: AccessKind,
    pub addr: u64,
    pub width: u8,
    pub val: u64,
}

/// Byte memory seen by one step: `data` is the (arbitrary) 8 bytes found at
/// whatever address is read; every access is logged.
pub struct Memory {
    pub data: u64,
    pub log: Option<AccessRec>,
    pub naccess: u8,
}
impl Memory {
    pub fn record(&mut self, r: AccessRec) {
        self.log = Some(r);
        if self.naccess < 250 {
            self.naccess += 1;
        }
    }
}

/// `_v` methods replace the raw-pointer primitives (DESIGN section 4, rewrite 2):
/// x86-64 / Rust `wrapping_offset` is two's-complement 64-bit addition,
/// accesses are little-endian and may be unaligned.
pub trait MemAccessV: Sized {
    type T;
    fn wrapping_offset_v(self, off: isize) -> Self;
    fn read_unaligned_v(self, m: &mut Memory) -> Self::T;
}
pub trait MemWriteV: Sized {
    type T;
    fn write_unaligned_v(self, m: &mut Memory, v: Self::T);
}
macro_rules! impl_mem {
    ($t:ty, $w:expr) => {
        impl MemAccessV for *const $t {
            type T = $t;
            fn wrapping_offset_v(self, off: isize) -> Self {
                ((self as u64).wrapping_add((off as i64 as u64).wrapping_mul($w))) as *const $t
            }
            fn read_unaligned_v(self, m: &mut Memory) -> $t {
                m.record(AccessRec { kind: AccessKind::Load, addr: self as u64, width: $w, val: 0 });
                m.data as $t
            }
        }
        impl MemAccessV for *mut $t {
            type T = $t;
            fn wrapping_offset_v(self, off: isize) -> Self {
                ((self as u64).wrapping_add((off as i64 as u64).wrapping_mul($w))) as *mut $t
            }
            fn read_unaligned_v(self, m: &mut Memory) -> $t {
                m.record(AccessRec { kind: AccessKind::Load, addr: self as u64, width: $w, val: 0 });
                m.data as $t
            }
        }
        impl MemWriteV for *mut $t {
            type T = $t;
            fn write_unaligned_v(self, m: &mut Memory, v: $t) {
                m.record(AccessRec { kind: AccessKind::Store, addr: self as u64, width: $w, val: v as u64 });
            }
        }
    };
}
impl_mem!(u8, 1);
impl_mem!(u16, 2);
impl_mem!(u32, 4);
impl_mem!(u64, 8);

pub trait AtomicAddV {
    type T;
    fn fetch_add_v(self, m: &mut Memory, v: Self::T, o: core::sync::atomic::Ordering) -> Self::T;
}
impl AtomicAddV for *const core::sync::atomic::AtomicU32 {
    type T = u32;
    fn fetch_add_v(self, m: &mut Memory, v: u32, _o: core::sync::atomic::Ordering) -> u32 {
        m.record(AccessRec { kind: AccessKind::AtomicAdd, addr: self as u64, width: 4, val: v as u64 });
        m.data as u32
    }
}
impl AtomicAddV for *const core::sync::atomic::AtomicU64 {
    type T = u64;
    fn fetch_add_v(self, m: &mut Memory, v: u64, _o: core::sync::atomic::Ordering) -> u64 {
        m.record(AccessRec { kind: AccessKind::AtomicAdd, addr: self as u64, width: 8, val: v });
        m.data
    }
}
