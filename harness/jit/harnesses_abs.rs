
// ====================================================================== modular proof of emit_muldivmod
// (see abs.rs): layer 1 = each instruction-level encoder against its contract, layer 2 = the arm with the
// encoders replaced by their contracts.
use super::abs::{self, AIns, AStep};

fn any_xstate_full() -> XState {
    let sp: usize = kani::any();
    kani::assume(sp <= 8);
    XState { r: kani::any(), flags_valid: kani::any(), zf: kani::any(), sf: kani::any(), cf: kani::any(), of: kani::any(),
             stack: kani::any(), sp_words: sp, load_data: kani::any(), access: XAccess::None, prev_access: XAccess::None, naccess: 0 }
}

fn xstate_eq(a: &XState, b: &XState, skip_rdx: bool) -> bool {
    let mut ok = true;
    let mut k = 0;
    while k < 16 { if !(skip_rdx && k == x86s::RDX) && a.r[k] != b.r[k] { ok = false; } k += 1; }
    let mut j = 0;
    while j < 8 { if a.stack[j] != b.stack[j] { ok = false; } j += 1; }
    ok && a.flags_valid == b.flags_valid && a.zf == b.zf && a.sf == b.sf && a.cf == b.cf && a.of == b.of
       && a.sp_words == b.sp_words && a.access == b.access && a.prev_access == b.prev_access && a.naccess == b.naccess
}

/// layer 1: the bytes at buf[o0..o0+len) behave (spec/x86.rs) like the abstract instruction `ins`
fn layer1(buf: &[u8; 64], o0: usize, len: usize, expect_len: usize, ins: AIns) {
    crate::arith::reset();
    let st0 = any_xstate_full();
    let mut s1 = st0;
    let mut s2 = st0;
    let a = abs::abs_exec(&mut s2, ins);
    if a == AStep::Bad { return; } // the contract claims nothing (layer 2 fails on Bad)
    let clause: u8 = kani::any();
    if clause == 0 { assert!(len == expect_len, "ensures: the encoder emits exactly abs_len bytes"); return; }
    let (nip, e) = x86s::exec_one(&mut s1, buf, o0);
    if clause == 1 {
        match a {
            AStep::Next => assert!(e.is_none() && nip == o0 + len, "ensures: the bytes decode to one instruction that falls through"),
            AStep::Rel(d) => assert!(e.is_none() && nip as i64 == (o0 + len) as i64 + d as i64, "ensures: taken direct jump lands at end + displacement"),
            AStep::Field(o) => assert!(e == Some(XEnd::JumpAt(o0 + o)) && nip == o0 + len, "ensures: taken placeholder jump reports the location of its rel32 field"),
            AStep::DivideError => assert!(e == Some(XEnd::DivideError), "ensures: divide error exactly when the abstract instruction says so"),
            AStep::Bad => {}
        }
        return;
    }
    let is_mul = matches!(ins, AIns::Alu { op: 0xf7, src, .. } if src & 7 == 4);
    assert!(xstate_eq(&s1, &s2, is_mul), "ensures: machine state after the bytes equals the state after the abstract instruction");
}

fn enc_setup(buf: &mut [u8; 64]) -> (JitMemory<'_>, usize) {
    let o0: usize = kani::any();
    kani::assume(o0 <= 40);
    let mut mem = mk_mem(buf, true);
    mem.offset = o0;
    (mem, o0)
}

#[kani::proof]
fn enc_push() {
    let r: u8 = kani::any(); kani::assume(r < 16);
    let mut buf = [0u8; 64];
    let (mut mem, o0) = enc_setup(&mut buf);
    let jit = JitCompiler::new();
    jit.emit_push(&mut mem, r);
    let len = mem.offset - o0;
    let i = AIns::Push(r);
    layer1(&buf, o0, len, abs::abs_len(&i), i);
}
#[kani::proof]
fn enc_pop() {
    let r: u8 = kani::any(); kani::assume(r < 16);
    let mut buf = [0u8; 64];
    let (mut mem, o0) = enc_setup(&mut buf);
    let jit = JitCompiler::new();
    jit.emit_pop(&mut mem, r);
    let len = mem.offset - o0;
    let i = AIns::Pop(r);
    layer1(&buf, o0, len, abs::abs_len(&i), i);
}
fn enc_alu(w: bool) {
    let (op, src, dst): (u8, u8, u8) = (kani::any(), kani::any(), kani::any());
    kani::assume(src < 16 && dst < 16);
    let mut buf = [0u8; 64];
    let (mut mem, o0) = enc_setup(&mut buf);
    let jit = JitCompiler::new();
    if w { jit.emit_alu64(&mut mem, op, src, dst); } else { jit.emit_alu32(&mut mem, op, src, dst); }
    let len = mem.offset - o0;
    let i = AIns::Alu { w, op, src, dst };
    layer1(&buf, o0, len, abs::abs_len(&i), i);
}
#[kani::proof]
fn enc_alu32() { enc_alu(false); }
#[kani::proof]
fn enc_alu64() { enc_alu(true); }
#[kani::proof]
fn enc_load_imm() {
    let dst: u8 = kani::any(); kani::assume(dst < 16);
    let imm: i64 = kani::any();
    let mut buf = [0u8; 64];
    let (mut mem, o0) = enc_setup(&mut buf);
    let jit = JitCompiler::new();
    jit.emit_load_imm(&mut mem, dst, imm);
    let len = mem.offset - o0;
    let i = AIns::LoadImm { dst, imm };
    layer1(&buf, o0, len, abs::abs_len(&i), i);
}
#[kani::proof]
fn enc_rex_alu32() {
    // a bare REX prefix followed by a 32-bit ALU instruction without its own prefix (how emit_muldivmod widens mul/div)
    let (w, r, x, b): (u8, u8, u8, u8) = (kani::any(), kani::any(), kani::any(), kani::any());
    kani::assume(w <= 1 && r <= 1 && x <= 1 && b <= 1);
    let (op, src, dst): (u8, u8, u8) = (kani::any(), kani::any(), kani::any());
    kani::assume(src < 16 && dst < 16);
    let mut buf = [0u8; 64];
    let (mut mem, o0) = enc_setup(&mut buf);
    let jit = JitCompiler::new();
    jit.emit_rex(&mut mem, w, r, x, b);
    let l1 = mem.offset - o0;
    assert!(l1 == abs::abs_len(&AIns::Rex { w, r, x, b }), "ensures: a REX prefix is one byte");
    jit.emit_alu32(&mut mem, op, src, dst);
    let len = mem.offset - o0;
    let next = AIns::Alu { w: false, op, src, dst };
    match abs::combine_rex(w, r, x, b, next) {
        Some(i) => layer1(&buf, o0, len, 1 + abs::abs_len(&next), i),
        None => {}
    }
}
#[kani::proof]
fn enc_direct_jcc() {
    let (code, off): (u8, u32) = (kani::any(), kani::any());
    kani::assume(off <= 32);
    let mut buf = [0u8; 64];
    let (mut mem, o0) = enc_setup(&mut buf);
    let jit = JitCompiler::new();
    jit.emit_direct_jcc(&mut mem, code, off);
    let len = mem.offset - o0;
    let i = AIns::DirectJcc { code, off };
    layer1(&buf, o0, len, abs::abs_len(&i), i);
}
#[kani::proof]
fn enc_jcc() {
    let code: u8 = kani::any();
    let target: isize = kani::any();
    let mut buf = [0u8; 64];
    let (mut mem, o0) = enc_setup(&mut buf);
    let mut jit = JitCompiler::new();
    jit.emit_jcc(&mut mem, code, target);
    let len = mem.offset - o0;
    assert!(jit.jumps.npush == 1 && find_jump(&jit, o0 + 2) == Some(target), "ensures: the rel32 placeholder (2 bytes into the instruction) is recorded with its target pc");
    let i = AIns::Jcc { code };
    layer1(&buf, o0, len, abs::abs_len(&i), i);
}
#[kani::proof]
fn enc_jmp() {
    let target: isize = kani::any();
    let mut buf = [0u8; 64];
    let (mut mem, o0) = enc_setup(&mut buf);
    let mut jit = JitCompiler::new();
    jit.emit_jmp(&mut mem, target);
    let len = mem.offset - o0;
    assert!(jit.jumps.npush == 1 && find_jump(&jit, o0 + 1) == Some(target), "ensures: the rel32 placeholder (1 byte into the instruction) is recorded with its target pc");
    let i = AIns::Jmp;
    layer1(&buf, o0, len, abs::abs_len(&i), i);
}

/// layer 2: the arm of a mul/div/mod opcode with the instruction-level encoders replaced by their contracts
pub fn run_arm_sem(opc: u8, dst: u8) {
    crate::arith::reset();
    abs::at_reset();
    // the shape of the sequence depends on dst (rax / rdx / other): one harness per destination register
    let insn = ebpf::Insn { opc, dst, src: kani::any(), off: kani::any(), imm: kani::any() };
    let next = ebpf::Insn { opc: 0, dst: kani::any(), src: kani::any(), off: kani::any(), imm: kani::any() };
    let si = SInsn { opc: insn.opc, dst: insn.dst, src: insn.src, off: insn.off, imm: insn.imm };
    let n: usize = kani::any();
    let pc: usize = kani::any();
    kani::assume(wf_facts(&si, pc, n));
    kani::assume(KNOWN_FINDING_EXCLUSION(&insn, pc));
    let helpers: HashMap<u32, ebpf::Helper> = HashMap::with(None);
    let mut buf = [0u8; 64];
    let mut mem = mk_mem(&mut buf, true);
    let mut jit = JitCompiler::new();
    jit.pc_locs = crate::vec![0; n + 1];
    let mut env = Env { insns: [insn.clone(), next.clone()], nfetch: 0, fetch_idx: [0, 0], n_insns: n };
    let r = jit.arm(&mut mem, &mut env, &helpers, pc);
    let emitted = mem.offset;
    let next_ptr = match r { Err(_) => { assert!(false, "ensures: compiling a verified mul/div/mod instruction succeeds"); return; } Ok(p) => p };
    let mut st = any_xstate();
    let pre_x = st.r;
    let reg = ebpf_regs(&st);
    let lay = SLayout {
        mbuff: SRegion { base: kani::any(), len: kani::any() },
        mem: SRegion { base: st.r[X_MEM_BASE], len: kani::any() },
        stack: SRegion { base: kani::any(), len: kani::any() },
        allowed: None,
    };
    if crate::WITNESS_MODE { kani::assume(small_world_regions((lay.mem.base, lay.mem.len), (lay.mbuff.base, lay.mbuff.len), (lay.stack.base, lay.stack.len))); }
    let pre = SState { reg, pc, depth: 0, frames: default_frames() };
    let oracle = SOracle { load_data: st.load_data, helper_present: false, helper_ret: 0, entry_usage: None, next_imm: next.imm };
    let want = spec_step(&pre, si, &lay, &oracle);
    kani::assume(want.kind != SKind::Err);
    // every byte must have been emitted through a contracted encoder (else this modular route does not apply: undecided)
    abs::check_accounting(emitted);
    let (end, ip) = abs::abs_run(&mut st);
    let got = ebpf_regs(&st);
    let clause: u8 = kani::any();
    if clause == 0 {
        assert!(end != XEnd::Unsupported, "ensures: the emitted sequence stays inside the contracts of the encoders (every jump lands on an instruction boundary of its own code)");
        assert!(end != XEnd::DivideError, "ensures: no divide error (division by zero yields 0 / leaves dst)");
        assert!(end != XEnd::Fallthrough || ip == emitted, "ensures: falling through leaves the code at its end");
        return;
    }
    let next_pc: isize = match end {
        XEnd::Fallthrough => next_ptr as isize,
        XEnd::JumpAt(loc) => match find_jump(&jit, loc) { Some(t) => t, None => { assert!(false, "ensures: every rel32 placeholder is recorded for resolve_jumps"); return; } },
        _ => { return; }
    };
    match clause {
        1 => assert!(next_pc == want.post.pc as isize, "ensures: next pc equals spec_step (branch taken iff the ISA says so, target pc+1+off)"),
        2 => assert!(regs_eq(&got, &want.post.reg), "ensures: register file (through the register map) equals spec_step"),
        3 => assert!(st.naccess == 0, "ensures: data access equals spec_step (address, width, kind, value)"),
        _ => assert!(preserved_outside_map(&pre_x, &st.r) && st.sp_words == 0, "ensures: rsp, the packet base register and the native stack are left as found"),
    }
}

/// the per-destination harnesses enumerate dst = 0..=10: that is every destination the verifier admits
pub fn muldivmod_dst_enumeration(opc: u8) {
    let dd: u8 = kani::any();
    let si = SInsn { opc, dst: dd, src: kani::any(), off: kani::any(), imm: kani::any() };
    let (pc, n): (usize, usize) = (kani::any(), kani::any());
    kani::assume(wf_facts(&si, pc, n));
    assert!(dd <= 10, "requires: the enumerated destinations 0..=10 are all the verifier admits");
}

/// vacuity guard of layer 1: the contracts claim something (abs_exec is not `Bad`) for every instruction form
/// emit_muldivmod relies on
#[kani::proof]
#[kani::unwind(20)]
fn enc_contracts_not_vacuous() {
    let mut st = any_xstate_full();
    st.flags_valid = true;
    kani::assume(st.sp_words >= 1 && st.sp_words <= 7);
    st.r[x86s::RDX] = 0;
    kani::assume(st.r[x86s::RCX] != 0);
    let forms = [AIns::Push(3), AIns::Pop(9), AIns::Alu { w: false, op: 0x31, src: 2, dst: 2 }, AIns::Alu { w: true, op: 0x85, src: 6, dst: 6 },
                 AIns::Alu { w: false, op: 0x85, src: 13, dst: 13 }, AIns::Alu { w: true, op: 0x89, src: 0, dst: 9 },
                 AIns::Alu { w: false, op: 0xf7, src: 4, dst: 1 }, AIns::Alu { w: true, op: 0xf7, src: 4, dst: 1 },
                 AIns::LoadImm { dst: 1, imm: -5 }, AIns::LoadImm { dst: 1, imm: 1 << 40 },
                 AIns::DirectJcc { code: 0x85, off: 7 }, AIns::Jcc { code: 0x84 }, AIns::Jmp];
    let mut k = 0;
    while k < forms.len() {
        let mut s = st;
        assert!(abs::abs_exec(&mut s, forms[k]) != AStep::Bad, "requires: the contract of this instruction form is not vacuous");
        k += 1;
    }
    let mut s = st;
    assert!(abs::abs_exec(&mut s, AIns::Alu { w: true, op: 0xf7, src: 6, dst: 1 }) == AStep::Next, "requires: div with rdx = 0 and a non-zero divisor is inside the contract");
    let pair = abs::combine_rex(1, 0, 0, 0, AIns::Alu { w: false, op: 0xf7, src: 6, dst: 1 });
    assert!(pair == Some(AIns::Alu { w: true, op: 0xf7, src: 6, dst: 1 }), "requires: REX.W + div ecx is div rcx");
}
