
// ------------------------------------------------------------------ resolve_jumps (C03, C12)
// For every recorded jump the 4 bytes at offset_loc become target_loc - (offset_loc + 4),
// nothing else changes; the table is indexed in range given the verifier facts.
#[kani::proof]
#[kani::unwind(6)]
fn resolve_jumps_contract() {
    let mut buf: [u8; 64] = kani::any();
    let before = buf;
    let n: usize = kani::any();
    kani::assume(n >= 1 && n <= 1_000_000);
    let off_loc: usize = kani::any();
    kani::assume(off_loc <= 60);
    let target_pc: isize = kani::any();
    let special: bool = kani::any();
    // verifier facts: a jump / call target is an instruction index inside the program
    kani::assume(special || (0 <= target_pc && (target_pc as usize) < n));
    let target_loc: usize = kani::any();
    kani::assume(target_loc <= 64 * 1_000_000);
    let mut jit = JitCompiler::new();
    jit.pc_locs = crate::vec![0; n + 1];
    jit.pc_locs.read_answer = Some(target_loc);
    jit.special_targets = HashMap::with(if special { Some(target_loc) } else { None });
    jit.jumps.push(Jump { offset_loc: off_loc, target_pc });
    let mut mem = mk_mem(&mut buf, true);
    let r = jit.resolve_jumps(&mut mem);
    assert!(r.is_ok(), "ensures: resolve_jumps succeeds");
    assert!(jit.special_targets.looked.get() == Some(target_pc), "ensures: special targets looked up by target pc");
    assert!(special || jit.pc_locs.ridx.get() == Some(target_pc as usize), "ensures: pc_locs indexed with the target pc");
    let rel = i32::from_le_bytes([buf[off_loc], buf[off_loc + 1], buf[off_loc + 2], buf[off_loc + 3]]);
    assert!(rel as i64 == target_loc as i64 - (off_loc as i64 + 4), "ensures: rel32 = target - end of the displacement field");
    let k: usize = kani::any();
    kani::assume(k < 64 && !(off_loc <= k && k < off_loc + 4));
    assert!(buf[k] == before[k], "ensures: no other byte changes");
}

// ------------------------------------------------------------------ prologue (C09 JIT part, C08 alignment)
fn run_prologue(use_mbuff: bool, update_data_ptr: bool) {
    let mut buf = [0u8; 64];
    let mut mem = mk_mem(&mut buf, true);
    let mut jit = JitCompiler::new();
    let prog_len: usize = kani::any();
    kani::assume(prog_len % 8 == 0 && prog_len >= 8 && prog_len <= 8_000_000);
    jit.prologue(&mut mem, prog_len, use_mbuff, update_data_ptr);
    let emitted = mem.offset;
    assert!(emitted <= 64, "ensures: prologue fits the buffer");
    assert!(jit.pc_locs.len == prog_len / 8 + 1, "ensures: one pc_locs entry per instruction plus one");
    // SysV entry: rdi = mbuff, rsi = mbuff_len, rdx = mem, rcx = mem_len, r8 = data offset, r9 = data_end offset
    let mut st = any_xstate();
    let e = st.r;
    kani::assume(e[x86s::RSP] % 16 == 8); // ABI: rsp + 8 is 16-byte aligned at function entry
    // the prologue ends with `call +5` (pushes the address of the exit jump) then `jmp exit`
    let (end, ip) = run(&mut st, &buf, 0, emitted, 20);
    let loc = match end { XEnd::CallAt(l) => l, _ => { assert!(false, "ensures: prologue reaches its call +5"); return; } };
    let rel = i32::from_le_bytes([buf[loc], buf[loc + 1], buf[loc + 2], buf[loc + 3]]);
    assert!(rel == 5 && ip + 5 == emitted, "ensures: the call skips exactly the 5-byte jump to the exit sequence");
    assert!(buf[ip] == 0xe9 && find_jump(&jit, ip + 1) == Some(TARGET_PC_EXIT), "ensures: the landing pad is a jump to the epilogue");
    let r = ebpf_regs(&st);
    let clause: u8 = kani::any();
    match clause {
        0 => {
            // r1: metadata buffer for metadata VMs, packet data for raw VMs
            assert!(r[1] == if use_mbuff { e[x86s::RDI] } else { e[x86s::RDX] }, "ensures: r1 = mbuff (metadata VMs) or mem (raw VMs)");
            assert!(st.r[X_MEM_BASE] == e[x86s::RDX], "ensures: the packet base register holds mem");
        }
        1 => {
            // r10 = top of a private stack of at least 512 bytes: rbp = rsp after the 5 pushes, then rsp is lowered
            let reserved = r[10].wrapping_sub(st.r[x86s::RSP]);
            assert!(r[10] == e[x86s::RSP].wrapping_sub(40) && reserved >= 512 && reserved <= 4096, "ensures: r10 is the top of (at least) 512 bytes reserved below it");
            assert!(st.sp_words == 5 && st.stack[0] == e[x86s::RBP] && st.stack[1] == e[x86s::RBX] && st.stack[2] == e[13] && st.stack[3] == e[14] && st.stack[4] == e[15],
                    "ensures: callee-saved registers pushed in the order the epilogue pops them");
        }
        2 => {
            if use_mbuff && update_data_ptr {
                // fixed-metadata VM (C09): exactly two 8-byte stores
                //   [mbuff + data_offset] = address of the first packet byte ; [mbuff + data_end_offset] = address one past the last
                assert!(st.naccess == 2, "ensures: exactly two stores into the metadata buffer, no load");
                assert!(st.prev_access == XAccess::Store { addr: e[x86s::RDI].wrapping_add(e[8]), width: 8, val: e[x86s::RDX] },
                        "ensures: packet address stored at mbuff + data_offset");
                assert!(st.access == XAccess::Store { addr: e[x86s::RDI].wrapping_add(e[9]), width: 8, val: e[x86s::RDX].wrapping_add(e[x86s::RCX]) },
                        "ensures: address one past the last packet byte stored at mbuff + data_end_offset");
            } else {
                assert!(st.naccess == 0, "ensures: no store into the metadata buffer unless the VM owns it");
            }
        }
        _ => {
            // C08: alignment seen by a helper called at depth 0 = alignment after the prologue's own call +5
            let rsp_in_body = st.r[x86s::RSP].wrapping_sub(8);
            assert!(rsp_in_body % 16 == JIT_BODY_RSP_MOD16, "ensures: rsp modulo 16 inside the generated code at call depth 0");
        }
    }
}
#[kani::proof]
#[kani::unwind(24)]
fn prologue_raw() { run_prologue(false, kani::any()); }
#[kani::proof]
#[kani::unwind(24)]
fn prologue_mbuff() { run_prologue(true, false); }
#[kani::proof]
#[kani::unwind(24)]
fn prologue_fixed_mbuff() { run_prologue(true, true); }

// ------------------------------------------------------------------ epilogue
// runs after the last `ret` of the body has popped the landing pad: undoes the prologue exactly
#[kani::proof]
#[kani::unwind(15)]
fn epilogue_contract() {
    // prologue first, to learn what it reserved
    let mut buf = [0u8; 64];
    let mut mem = mk_mem(&mut buf, true);
    let mut jit = JitCompiler::new();
    jit.prologue(&mut mem, 16, kani::any(), false);
    let plen = mem.offset;
    let mut st = any_xstate();
    let e = st.r;
    let (end, _ip) = run(&mut st, &buf, 0, plen, 12);
    kani::assume(matches!(end, XEnd::CallAt(_)));
    // the body may change every eBPF register except r10's carrier being restored by the epilogue anyway
    let r0: u64 = kani::any();
    st.r[x86s::RAX] = r0;
    st.r[3] = kani::any(); st.r[13] = kani::any(); st.r[14] = kani::any(); st.r[15] = kani::any(); st.r[5] = kani::any();
    st.naccess = 0;
    st.access = XAccess::None;
    let mut buf2 = [0u8; 64];
    let mut mem2 = mk_mem(&mut buf2, true);
    let mut jit2 = JitCompiler::new();
    jit2.epilogue(&mut mem2);
    let elen = mem2.offset;
    assert!(jit2.special_targets.inserted == Some((TARGET_PC_EXIT, 0)), "ensures: the exit anchor is the start of the epilogue");
    let (end2, ip2) = run(&mut st, &buf2, 0, elen, 10);
    assert!(end2 == XEnd::Ret && ip2 == elen, "ensures: epilogue ends with ret");
    assert!(st.r[x86s::RAX] == r0, "ensures: the return value is r0 (rax)");
    assert!(st.r[x86s::RBP] == e[x86s::RBP] && st.r[x86s::RBX] == e[x86s::RBX] && st.r[13] == e[13] && st.r[14] == e[14] && st.r[15] == e[15] && st.sp_words == 0,
            "ensures: callee-saved registers of the caller restored");
    assert!(st.r[x86s::RSP] == e[x86s::RSP], "ensures: rsp is back where the caller left it (everything the prologue reserved is released)");
    assert!(st.naccess == 0, "ensures: no data access");
}

// C07 (JIT part): inside the callee r10 must be lower than the caller's by the caller's frame size.
// The JIT does not adjust the frame pointer: KNOWN FINDING jit-local-call-r10 (this harness is expected to fail).
#[kani::proof]
#[kani::unwind(16)]
fn kf_jit_local_call_r10() {
    let insn = ebpf::Insn { opc: OP_CALL, dst: 0, src: 1, off: 0, imm: kani::any() };
    let n: usize = kani::any();
    let pc: usize = kani::any();
    let si = SInsn { opc: insn.opc, dst: 0, src: 1, off: 0, imm: insn.imm };
    kani::assume(wf_facts(&si, pc, n));
    let helpers: HashMap<u32, ebpf::Helper> = HashMap::with(None);
    let mut buf = [0u8; 64];
    let mut mem = mk_mem(&mut buf, true);
    let mut jit = JitCompiler::new();
    jit.pc_locs = crate::vec![0; n + 1];
    let mut env = Env { insns: [insn.clone(), insn.clone()], nfetch: 0, fetch_idx: [0, 0], n_insns: n };
    let r = jit.arm(&mut mem, &mut env, &helpers, pc);
    kani::assume(r.is_ok());
    let emitted = mem.offset;
    let mut st = any_xstate();
    let before = ebpf_regs(&st);
    let (end, _ip) = run(&mut st, &buf, 0, emitted, 12);
    kani::assume(matches!(end, XEnd::CallAt(_)));
    let at_entry = ebpf_regs(&st);
    assert!(at_entry[10] == before[10].wrapping_sub(S_DEFAULT_FRAME as u64), "ensures: r10 in the callee is lower than the caller's by the caller's frame size");
}

// ------------------------------------------------------------------ map_register (C12)
#[kani::proof]
fn map_register_contract() {
    let r: u8 = kani::any();
    kani::assume(r <= 10); // verifier: dst, src <= 10
    let m = map_register(r);
    assert!(m as usize == MAP[r as usize], "ensures: register convention r0..r10 -> rax,rdi,rsi,rdx,r9,r8,rbx,r13,r14,r15,rbp");
}

// ------------------------------------------------------------------ JitMemory::new, no_std variant (C20, C12)
// Caller-supplied executable memory: too small or unaligned => Err; otherwise the two passes run on it.
#[repr(align(4096))]
pub struct Page(pub [u8; 8192]);
pub static mut EXEC: Page = Page([0; 8192]);
#[kani::proof]
#[kani::unwind(6)]
fn jit_memory_new_nostd() {
    // mov64 r0, 7 ; exit
    let prog: [u8; 16] = [0xb7, 0, 0, 0, 7, 0, 0, 0, 0x95, 0, 0, 0, 0, 0, 0, 0];
    let helpers: HashMap<u32, ebpf::Helper> = HashMap::with(None);
    let skew: usize = kani::any();
    let len: usize = kani::any();
    kani::assume(skew < 2 && len <= 4096 && (len == 4096 || len == 4000));
    let mem_slice: &'static mut [u8] = unsafe { &mut EXEC.0[skew..skew + len] };
    // counting pass alone, to know what must fit
    let mut counter = JitMemory::counter();
    let mut c = JitCompiler::new();
    assert!(c.jit_compile(&mut counter, &prog, false, false, &helpers).is_ok(), "ensures: counting pass succeeds");
    let need = counter.offset;
    assert!(need > 0 && need <= 4096, "ensures: a two-instruction program needs less than a page");
    match JitMemory::new(&prog, mem_slice, &helpers, false, false) {
        Ok(m) => {
            assert!(skew == 0 && len == 4096, "ensures: memory smaller than the page-rounded size, or not page aligned, is refused");
            assert!(m.offset == need && m.write_enabled, "ensures: the emission pass writes exactly what the counting pass sized");
        }
        Err(_) => assert!(skew != 0 || len < 4096, "ensures: suitable memory is accepted"),
    }
}

// ------------------------------------------------------------------ emit_bytes! (C12)
// The sizing argument of JitMemory::new ("the buffer is at least as large as what the counting pass sized")
// needs every emitN to succeed whenever its bytes fit - INCLUDING when they end exactly at the end of the
// buffer - to write them little-endian at `offset`, to touch nothing else, and to advance `offset` by N in
// both passes.
#[kani::proof]
#[kani::unwind(66)]
fn emit_bytes_contract() {
    let mut buf: [u8; 64] = kani::any();
    let before = buf;
    let len: usize = kani::any();
    let off: usize = kani::any();
    let which: u8 = kani::any();
    kani::assume(which < 4 && len <= 64);
    let size = 1usize << which;
    kani::assume(off <= 64 && off + size <= len);
    let write_enabled: bool = kani::any();
    let v: u64 = kani::any();
    {
        let mut mem = JitMemory { contents: &mut buf[..len], write_enabled, offset: off };
        let jit = JitCompiler::new();
        match which { 0 => jit.emit1(&mut mem, v as u8), 1 => jit.emit2(&mut mem, v as u16), 2 => jit.emit4(&mut mem, v as u32), _ => jit.emit8(&mut mem, v) }
        assert!(mem.offset == off + size, "ensures: offset advances by the operand size in the counting pass and in the emission pass alike");
    }
    let k: usize = kani::any();
    kani::assume(k < 64);
    if write_enabled && off <= k && k < off + size {
        assert!(buf[k] == (v >> (8 * (k - off))) as u8, "ensures: the operand is written little-endian at offset");
    } else {
        assert!(buf[k] == before[k], "ensures: no other byte changes (none at all in the counting pass)");
    }
}
