// Abstract x86 instructions: the CONTRACT LANGUAGE of the instruction-level encoders of jit.rs.
//
// The long sequence emit_muldivmod emits (up to 16 x86 instructions whose lengths depend on the
// registers) is too large for CBMC when every step decodes symbolic bytes at a symbolic position.
// It is therefore proved modularly, callee by contract:
//
//   layer 1 (harnesses enc_*):  for every argument the bytes a REAL encoder (emit_push, emit_pop,
//       emit_alu32, emit_alu64, emit_load_imm, emit_rex + emit_alu32, emit_direct_jcc, emit_jcc,
//       emit_jmp) writes decode and execute under spec/x86.rs exactly like the abstract instruction its
//       contract names (`abs_exec`), have the length `abs_len`, and emit_jcc / emit_jmp record their
//       rel32 placeholder in `jumps`;
//   layer 2 (harnesses arm_*_sem):  the REAL emit_muldivmod (through the real jit_compile arm), with
//       each of those encoders replaced by its contract (Kani stubs below: append the abstract
//       instruction, advance `offset` by `abs_len`), produces a sequence whose abstract execution
//       equals spec_step.
//
// `abs_exec` is NOT trusted: it only links the two layers (bytes == abs by layer 1, abs == ISA by
// layer 2).  Whatever it returns `Bad` for fails layer 2, so it may be partial.
use super::*;
use crate::arith;
use crate::x86::{XAccess, XEnd, XState};
use crate::x86 as x86s;

#[derive(Clone, Copy, PartialEq, Eq, Debug)]
pub enum AIns {
    Nop,
    Push(u8),
    Pop(u8),
    /// `op r/m, r` register-to-register form (mod = 3): reg field = src (or the opcode extension), r/m = dst
    Alu { w: bool, op: u8, src: u8, dst: u8 },
    /// mov dst, imm (sign-extended imm32 form when it fits, movabs otherwise)
    LoadImm { dst: u8, imm: i64 },
    /// a bare REX prefix; belongs to the instruction that follows
    Rex { w: u8, r: u8, x: u8, b: u8 },
    /// jcc with a fixed non-zero displacement (stays inside the code of this eBPF instruction)
    DirectJcc { code: u8, off: u32 },
    /// jcc / jmp with a rel32 placeholder recorded in `jumps` (resolved by resolve_jumps)
    Jcc { code: u8 },
    Jmp,
}

pub const TMAX: usize = 20;
/// the recorded sequence, as plain arrays of scalars (cheap for CBMC when the number of items is symbolic)
pub struct ATrace { pub n: usize, pub kind: [u8; TMAX], pub a: [u8; TMAX], pub b: [u8; TMAX], pub c: [u8; TMAX], pub d: [u8; TMAX], pub imm: [i64; TMAX], pub overflow: bool }
pub static mut AT: ATrace = ATrace { n: 0, kind: [0; TMAX], a: [0; TMAX], b: [0; TMAX], c: [0; TMAX], d: [0; TMAX], imm: [0; TMAX], overflow: false };

pub fn at_reset() { unsafe { AT = ATrace { n: 0, kind: [0; TMAX], a: [0; TMAX], b: [0; TMAX], c: [0; TMAX], d: [0; TMAX], imm: [0; TMAX], overflow: false }; } }
fn record(i: AIns) {
    let x = raw_of(i);
    unsafe {
        if AT.n < TMAX {
            let k = AT.n;
            AT.kind[k] = x.kind; AT.a[k] = x.a; AT.b[k] = x.b; AT.c[k] = x.c; AT.d[k] = x.d; AT.imm[k] = x.imm;
            AT.n += 1;
        } else { AT.overflow = true; }
    }
}
pub fn at_get(k: usize) -> Raw {
    let t = unsafe { &AT };
    Raw { kind: t.kind[k], a: t.a[k], b: t.b[k], c: t.c[k], d: t.d[k], imm: t.imm[k] }
}

#[derive(Clone, Copy, PartialEq, Eq, Debug)]
pub enum AStep {
    Next,
    /// taken jump with this displacement from the end of the instruction
    Rel(i32),
    /// taken jump through a placeholder whose rel32 field starts this many bytes into the instruction
    Field(usize),
    DivideError,
    Bad,
}

fn mask(bits: u8) -> u64 { if bits == 64 { u64::MAX } else { 0xffff_ffff } }
fn sign_bit(v: u64, bits: u8) -> bool { (v >> (bits - 1)) & 1 == 1 }
fn wreg(st: &mut XState, n: usize, bits: u8, v: u64) { st.r[n] = if bits == 64 { v } else { v & 0xffff_ffff }; }
fn logic_flags(st: &mut XState, res: u64, bits: u8) {
    st.flags_valid = true; st.zf = res & mask(bits) == 0; st.sf = sign_bit(res, bits); st.cf = false; st.of = false;
}
fn sub_flags(st: &mut XState, a: u64, b: u64, bits: u8) {
    let (a, b) = (a & mask(bits), b & mask(bits));
    let res = a.wrapping_sub(b) & mask(bits);
    st.flags_valid = true; st.zf = res == 0; st.sf = sign_bit(res, bits); st.cf = a < b;
    st.of = sign_bit(a, bits) != sign_bit(b, bits) && sign_bit(res, bits) != sign_bit(a, bits);
}
fn cond(st: &XState, cc: u8) -> Option<bool> {
    if !st.flags_valid { return None; }
    Some(match cc {
        0x2 => st.cf, 0x3 => !st.cf, 0x4 => st.zf, 0x5 => !st.zf, 0x6 => st.cf || st.zf, 0x7 => !st.cf && !st.zf,
        0xc => st.sf != st.of, 0xd => st.sf == st.of, 0xe => st.zf || st.sf != st.of, 0xf => !st.zf && st.sf == st.of,
        _ => return None,
    })
}

/// the scalar form of an abstract instruction: (kind, a, b, c, d, imm) as stored in the trace
#[derive(Clone, Copy)]
pub struct Raw { pub kind: u8, pub a: u8, pub b: u8, pub c: u8, pub d: u8, pub imm: i64 }
pub const K_PUSH: u8 = 1;
pub const K_POP: u8 = 2;
pub const K_ALU32: u8 = 3;
pub const K_ALU64: u8 = 4;
pub const K_LOADIMM: u8 = 5;
pub const K_REX: u8 = 6;
pub const K_DJCC: u8 = 7;
pub const K_JCC: u8 = 8;
pub const K_JMP: u8 = 9;
pub fn raw_of(i: AIns) -> Raw {
    let (kind, a, b, c, d, imm): (u8, u8, u8, u8, u8, i64) = match i {
        AIns::Nop => (0, 0, 0, 0, 0, 0),
        AIns::Push(r) => (K_PUSH, r, 0, 0, 0, 0),
        AIns::Pop(r) => (K_POP, r, 0, 0, 0, 0),
        AIns::Alu { w, op, src, dst } => (if w { K_ALU64 } else { K_ALU32 }, op, src, dst, 0, 0),
        AIns::LoadImm { dst, imm } => (K_LOADIMM, dst, 0, 0, 0, imm),
        AIns::Rex { w, r, x, b } => (K_REX, w, r, x, b, 0),
        AIns::DirectJcc { code, off } => (K_DJCC, code, 0, 0, 0, off as i64),
        AIns::Jcc { code } => (K_JCC, code, 0, 0, 0, 0),
        AIns::Jmp => (K_JMP, 0, 0, 0, 0, 0),
    };
    Raw { kind, a, b, c, d, imm }
}

/// number of bytes the real encoder emits for the instruction (proved in layer 1)
pub fn abs_len(i: &AIns) -> usize { raw_len(&raw_of(*i)) }
pub fn raw_len(x: &Raw) -> usize {
    match x.kind {
        K_PUSH | K_POP => if x.a & 8 != 0 { 2 } else { 1 },
        K_ALU32 => if x.b & 8 != 0 || x.c & 8 != 0 { 3 } else { 2 },
        K_ALU64 => 3,
        K_LOADIMM => if x.imm >= i32::MIN as i64 && x.imm <= i32::MAX as i64 { 7 } else { 10 },
        K_REX => 1,
        K_DJCC | K_JCC => 6,
        K_JMP => 5,
        _ => 0,
    }
}

/// execute one abstract instruction (register numbers are x86 numbers 0..15)
pub fn abs_exec(st: &mut XState, i: AIns) -> AStep { raw_exec(st, &raw_of(i)) }
pub fn raw_exec(st: &mut XState, x: &Raw) -> AStep {
    match x.kind {
        K_PUSH => {
            let r = x.a;
            if r > 15 || st.sp_words >= 8 { return AStep::Bad; }
            st.stack[st.sp_words] = st.r[r as usize];
            st.sp_words += 1;
            st.r[x86s::RSP] = st.r[x86s::RSP].wrapping_sub(8);
            AStep::Next
        }
        K_POP => {
            let r = x.a;
            if r > 15 || st.sp_words == 0 { return AStep::Bad; }
            st.sp_words -= 1;
            st.r[r as usize] = st.stack[st.sp_words];
            st.r[x86s::RSP] = st.r[x86s::RSP].wrapping_add(8);
            AStep::Next
        }
        K_LOADIMM => {
            if x.a > 15 { return AStep::Bad; }
            st.r[x.a as usize] = x.imm as u64;
            AStep::Next
        }
        K_ALU32 | K_ALU64 => {
            let (op, src, dst) = (x.a, x.b, x.c);
            if src > 15 || dst > 15 { return AStep::Bad; }
            let bits: u8 = if x.kind == K_ALU64 { 64 } else { 32 };
            let (sn, dn) = (src as usize, dst as usize);
            let s = st.r[sn];
            let d = st.r[dn];
            match op {
                0x89 => { wreg(st, dn, bits, s); AStep::Next }
                0x39 => { sub_flags(st, d, s, bits); AStep::Next }
                0x85 => { logic_flags(st, d & s, bits); AStep::Next }
                0x01 | 0x09 | 0x21 | 0x29 | 0x31 => {
                    let res = match op { 0x01 => d.wrapping_add(s), 0x09 => d | s, 0x21 => d & s, 0x29 => d.wrapping_sub(s), _ => d ^ s };
                    wreg(st, dn, bits, res);
                    if op == 0x29 { sub_flags(st, d, s, bits); } else if op == 0x01 { st.flags_valid = false; } else { logic_flags(st, res, bits); }
                    AStep::Next
                }
                0xf7 => {
                    let dm = d & mask(bits);
                    match src & 7 {
                        3 => { wreg(st, dn, bits, 0u64.wrapping_sub(dm)); st.flags_valid = false; AStep::Next }
                        4 => {
                            let a = st.r[x86s::RAX] & mask(bits);
                            let lo = if bits == 64 { arith::mul64(a, dm) } else { arith::mul32(a as u32, dm as u32) as u64 };
                            wreg(st, x86s::RAX, bits, lo);
                            let hi: u64 = arith::unspecified();
                            wreg(st, x86s::RDX, bits, hi);
                            st.flags_valid = false;
                            AStep::Next
                        }
                        6 => {
                            if st.r[x86s::RDX] & mask(bits) != 0 { return AStep::Bad; }
                            if dm == 0 { return AStep::DivideError; }
                            let a = st.r[x86s::RAX] & mask(bits);
                            let (q, r) = if bits == 64 { (arith::div64(a, dm), arith::rem64(a, dm)) }
                                         else { (arith::div32(a as u32, dm as u32) as u64, arith::rem32(a as u32, dm as u32) as u64) };
                            wreg(st, x86s::RAX, bits, q);
                            wreg(st, x86s::RDX, bits, r);
                            st.flags_valid = false;
                            AStep::Next
                        }
                        _ => AStep::Bad,
                    }
                }
                _ => AStep::Bad,
            }
        }
        K_DJCC => {
            let (code, off) = (x.a, x.imm as u32);
            if code & 0xf0 != 0x80 { return AStep::Bad; }
            match cond(st, code & 0xf) {
                None => AStep::Bad,
                Some(false) => AStep::Next,
                Some(true) => if off == 0 { AStep::Field(2) } else { AStep::Rel(off as i32) },
            }
        }
        K_JCC => {
            let code = x.a;
            if code & 0xf0 != 0x80 { return AStep::Bad; }
            match cond(st, code & 0xf) { None => AStep::Bad, Some(false) => AStep::Next, Some(true) => AStep::Field(2) }
        }
        K_JMP => AStep::Field(1),
        _ => AStep::Bad,
    }
}

/// a bare REX prefix applies to the instruction that follows, which must not carry a prefix of its own
pub fn combine_rex(w: u8, r: u8, x: u8, b: u8, next: AIns) -> Option<AIns> {
    let c = raw_combine_rex(&raw_of(AIns::Rex { w, r, x, b }), &raw_of(next))?;
    Some(AIns::Alu { w: c.kind == K_ALU64, op: c.a, src: c.b, dst: c.c })
}
pub fn raw_combine_rex(rex: &Raw, next: &Raw) -> Option<Raw> {
    let (w, r, x, b) = (rex.a, rex.b, rex.c, rex.d);
    if x != 0 || w > 1 || r > 1 || b > 1 { return None; }
    if next.kind == K_ALU32 && next.b < 8 && next.c < 8 {
        Some(Raw { kind: if w == 1 { K_ALU64 } else { K_ALU32 }, a: next.a, b: next.b + 8 * r, c: next.c + 8 * b, d: 0, imm: 0 })
    } else { None }
}

/// Run the recorded sequence from its start.  Byte offsets are those of the real code (sums of `abs_len`),
/// so jump displacements and placeholder locations mean what they mean there.  Only FORWARD direct jumps
/// are in the subset (a backward one is `Unsupported`), which lets the run be one linear pass over the
/// sequence: an instruction is executed unless a taken jump is skipping over it.
pub fn abs_run(st: &mut XState) -> (XEnd, usize) {
    let t = unsafe { &AT };
    if t.overflow { return (XEnd::Unsupported, 0); }
    let n = t.n;
    let mut here = 0usize;              // byte offset of item k
    let mut skip_to: Option<usize> = None; // a taken direct jump is in flight towards this byte offset
    let mut paired = false;             // item k was consumed together with the REX prefix before it
    let mut k = 0;
    while k < TMAX {
        if k < n {
            let item = at_get(k);
            let len = raw_len(&item);
            if paired {
                paired = false;
            } else {
                let mut run_it = true;
                if let Some(tgt) = skip_to {
                    if here < tgt { run_it = false; }
                    else if here == tgt { skip_to = None; }
                    else { return (XEnd::Unsupported, here); } // lands inside an instruction
                }
                let mut ins = item;
                let mut end = here + len;
                if item.kind == K_REX {
                    if k + 1 >= n { return (XEnd::Unsupported, here); }
                    let nx = at_get(k + 1);
                    match raw_combine_rex(&item, &nx) {
                        Some(c) => { ins = c; end += raw_len(&nx); paired = true; }
                        None => return (XEnd::Unsupported, here),
                    }
                }
                if run_it {
                    match raw_exec(st, &ins) {
                        AStep::Bad => return (XEnd::Unsupported, here),
                        AStep::DivideError => return (XEnd::DivideError, end),
                        AStep::Field(o) => return (XEnd::JumpAt(here + o), end),
                        AStep::Next => {}
                        AStep::Rel(d) => {
                            if d <= 0 { return (XEnd::Unsupported, here); }
                            skip_to = Some(end + d as usize);
                        }
                    }
                }
            }
            here += len;
        }
        k += 1;
    }
    match skip_to {
        Some(tgt) if tgt != here => (XEnd::Unsupported, here), // jumps past the end of its own code
        _ => (XEnd::Fallthrough, here),
    }
}

/// The modular route applies only if every byte of the arm was emitted through a contracted encoder.  A
/// mismatch is a limit of this machinery (the code uses an encoder that has no contract here), not a
/// violation: failures located in this file are reported as UNDECIDED by the driver.
pub fn check_accounting(emitted: usize) {
    let t = unsafe { &AT };
    let mut sum = 0usize;
    let mut k = 0;
    while k < TMAX { if k < t.n { sum += raw_len(&at_get(k)); } k += 1; }
    assert!(!t.overflow && sum == emitted, "machinery: every emitted byte goes through an encoder that has a contract in abs.rs");
}

// ------------------------------------------------------------------ the contracts, as Kani stubs (layer 2)
// Each stub is the postcondition of the encoder it replaces: "appends bytes that behave like <abstract
// instruction> and advances offset by abs_len".  Preconditions (register numbers < 16, flag bits) are
// asserted, i.e. checked at every call site.
pub fn c_emit_push(_s: &JitCompiler, mem: &mut JitMemory, r: u8) {
    assert!(r < 16, "requires: x86 register number");
    let i = AIns::Push(r); record(i); mem.offset += abs_len(&i);
}
pub fn c_emit_pop(_s: &JitCompiler, mem: &mut JitMemory, r: u8) {
    assert!(r < 16, "requires: x86 register number");
    let i = AIns::Pop(r); record(i); mem.offset += abs_len(&i);
}
pub fn c_emit_alu32(_s: &JitCompiler, mem: &mut JitMemory, op: u8, src: u8, dst: u8) {
    assert!(src < 16 && dst < 16, "requires: x86 register numbers");
    let i = AIns::Alu { w: false, op, src, dst }; record(i); mem.offset += abs_len(&i);
}
pub fn c_emit_alu64(_s: &JitCompiler, mem: &mut JitMemory, op: u8, src: u8, dst: u8) {
    assert!(src < 16 && dst < 16, "requires: x86 register numbers");
    let i = AIns::Alu { w: true, op, src, dst }; record(i); mem.offset += abs_len(&i);
}
pub fn c_emit_load_imm(_s: &JitCompiler, mem: &mut JitMemory, dst: u8, imm: i64) {
    assert!(dst < 16, "requires: x86 register number");
    let i = AIns::LoadImm { dst, imm }; record(i); mem.offset += abs_len(&i);
}
pub fn c_emit_rex(_s: &JitCompiler, mem: &mut JitMemory, w: u8, r: u8, x: u8, b: u8) {
    assert!(w | 1 == 1 && r | 1 == 1 && x | 1 == 1 && b | 1 == 1, "requires: REX bits are 0 or 1");
    let i = AIns::Rex { w, r, x, b }; record(i); mem.offset += abs_len(&i);
}
pub fn c_emit_direct_jcc(_s: &JitCompiler, mem: &mut JitMemory, code: u8, offset: u32) {
    let i = AIns::DirectJcc { code, off: offset }; record(i); mem.offset += abs_len(&i);
}
pub fn c_emit_jcc(s: &mut JitCompiler, mem: &mut JitMemory, code: u8, target_pc: isize) {
    s.jumps.push(Jump { offset_loc: mem.offset + 2, target_pc });
    let i = AIns::Jcc { code }; record(i); mem.offset += abs_len(&i);
}
pub fn c_emit_jmp(s: &mut JitCompiler, mem: &mut JitMemory, target_pc: isize) {
    s.jumps.push(Jump { offset_loc: mem.offset + 1, target_pc });
    let i = AIns::Jmp; record(i); mem.offset += abs_len(&i);
}
