// GENERATED (prelude is /verif/harness/jit/harnesses_prelude.rs) - one harness per opcode arm of jit_compile.
use super::*;
use super::contract::*;
use crate::spec::*;
use crate::x86::{run, XAccess, XEnd, XState};
use crate::x86 as x86s;

fn helper_fn(a: u64, b: u64, c: u64, d: u64, e: u64) -> u64 { a ^ b ^ c ^ d ^ e }

pub fn mk_mem<'a>(buf: &'a mut [u8; 64], write_enabled: bool) -> JitMemory<'a> {
    JitMemory { contents: &mut buf[..], write_enabled, offset: 0 }
}

fn find_jump(jit: &JitCompiler, loc: usize) -> Option<isize> {
    let j = &jit.jumps;
    let mut k = 0;
    let mut r = None;
    while k < 4 {
        if k < j.npush {
            if let Some(x) = &j.pushed[k] {
                if x.offset_loc == loc { r = Some(x.target_pc); }
            }
        }
        k += 1;
    }
    r
}

fn any_xstate() -> XState {
    XState { r: kani::any(), flags_valid: false, zf: false, sf: false, cf: false, of: false,
             stack: [0; 8], sp_words: 0, load_data: kani::any(), access: XAccess::None, prev_access: XAccess::None, naccess: 0 }
}

fn regs_same_except(a: &[u64; 11], b: &[u64; 11], skip_from: usize, skip_to: usize) -> bool {
    let mut ok = true;
    let mut k = 0;
    while k < 11 {
        if !(skip_from <= k && k <= skip_to) && a[k] != b[k] { ok = false; }
        k += 1;
    }
    ok
}

pub fn run_arm(opc: u8, fuel: usize) { run_arm_dst(opc, fuel, None) }

/// Only the clauses about the two compilation passes (sizes, fetches, pc_locs, compile errors, panics), with the
/// REAL encoders; the meaning of the emitted bytes is then proved modularly (harnesses_abs.rs).
static mut EMIT_ONLY: bool = false;
pub fn run_arm_emit(opc: u8) { unsafe { EMIT_ONLY = true; } run_arm_fixed(opc, 0, None, None) }

/// `dst_fixed`: the heavy mul/div/mod arms are proved once per destination register (the shape of the
/// emitted sequence - pushes/pops around rax/rdx - depends on it); together the harnesses cover all of them
pub fn run_arm_dst(opc: u8, fuel: usize, dst_fixed: Option<u8>) { run_arm_fixed(opc, fuel, dst_fixed, None) }

pub fn run_arm_fixed(opc: u8, fuel: usize, dst_fixed: Option<u8>, src_fixed: Option<u8>) {
    crate::arith::reset();
    let insn = ebpf::Insn { opc, dst: match dst_fixed { Some(d) => d, None => kani::any() }, src: match src_fixed { Some(x) => x, None => kani::any() }, off: kani::any(), imm: kani::any() };
    let next = ebpf::Insn { opc: 0, dst: kani::any(), src: kani::any(), off: kani::any(), imm: kani::any() };
    let si = SInsn { opc: insn.opc, dst: insn.dst, src: insn.src, off: insn.off, imm: insn.imm };
    let n: usize = kani::any();
    let pc: usize = kani::any();
    // requires: the facts verifier::check establishes (C06), same predicate as the interpreter unit
    kani::assume(wf_facts(&si, pc, n));
    let is_ldabs_ind = opc & 7 == CLS_LD && opc != OP_LDDW;
    // C03 reads "all memory accesses in bounds": for ld_abs/ld_ind the JIT uses a signed disp32 where the
    // interpreter adds imm as u32; with a negative imm the interpreter reports out-of-bounds for every
    // packet < 2 GiB, which is outside the claim
    kani::assume(!is_ldabs_ind || insn.imm >= 0);
    // a tail call is refused by the verifier (C06): the JIT arm is `unimplemented!()`
    kani::assume(opc != OP_TAIL_CALL);
    kani::assume(KNOWN_FINDING_EXCLUSION(&insn, pc));
    // vacuity guard: wf_facts is witnessed natively per opcode (`replay wf-witness`); nothing else is assumed before compiling
    let helper: Option<ebpf::Helper> = if kani::any() { Some(helper_fn) } else { None };
    let helpers: HashMap<u32, ebpf::Helper> = HashMap::with(helper);

    // ---- compile this one instruction with the real code: emission pass ----
    let mut buf = [0u8; 64];
    let mut mem = mk_mem(&mut buf, true);
    let mut jit = JitCompiler::new();
    jit.pc_locs = crate::vec![0; n + 1];
    let mut env = Env { insns: [insn.clone(), next.clone()], nfetch: 0, fetch_idx: [0, 0], n_insns: n };
    let r = jit.arm(&mut mem, &mut env, &helpers, pc);
    let emitted = mem.offset;
    // ---- and the counting pass (write_enabled = false) of the two-pass sizing (C12) ----
    let mut buf2 = [0u8; 64];
    let mut mem2 = mk_mem(&mut buf2, false);
    let mut jit2 = JitCompiler::new();
    jit2.pc_locs = crate::vec![0; n + 1];
    let mut env2 = Env { insns: [insn.clone(), next.clone()], nfetch: 0, fetch_idx: [0, 0], n_insns: n };
    let helpers2: HashMap<u32, ebpf::Helper> = HashMap::with(helper);
    let r2 = jit2.arm(&mut mem2, &mut env2, &helpers2, pc);
    let clause: u8 = kani::any();
    let unregistered = opc == OP_CALL && insn.src == 0 && helper.is_none();
    let next_ptr = match r {
        Err(_) => {
            assert!(unregistered, "ensures: compiling a verified instruction fails only for an unregistered helper id");
            assert!(r2.is_err(), "ensures: both passes agree on failure");
            return;
        }
        Ok(p) => p,
    };
    if clause == 0 {
        assert!(!unregistered, "ensures: a call to an unregistered helper id is a compile-time error");
        assert!(r2.is_ok() && mem2.offset == emitted, "ensures: the counting pass sizes exactly what the emission pass writes");
        assert!(emitted <= 64, "ensures: emitted bytes stay inside the buffer");
        return;
    }
    if clause == 1 {
        assert!(next_ptr == pc + if opc == OP_LDDW { 2 } else { 1 }, "ensures: one slot consumed (two for lddw)");
        assert!(env.fetch_idx[0] == pc && if opc == OP_LDDW { env.nfetch == 2 && env.fetch_idx[1] == pc + 1 } else { env.nfetch == 1 },
                "ensures: instruction slots fetched are pc (and pc+1 for lddw)");
        assert!(jit.pc_locs.widx == Some(pc) && jit.pc_locs.slot == Some(0) && jit.pc_locs.nwrite == 1, "ensures: pc_locs[pc] = start of the code of this instruction");
        if opc == OP_CALL && insn.src == 0 {
            assert!(helpers.nlook.get() == 1 && helpers.looked.get() == Some(insn.imm as u32), "ensures: helper table consulted with the id of the instruction");
        }
        return;
    }

    if unsafe { EMIT_ONLY } { return; }
    // ---- meaning of the emitted bytes ----
    let mut st = any_xstate();
    let pre_x = st.r;
    let reg = ebpf_regs(&st);
    let lay = SLayout {
        mbuff: SRegion { base: kani::any(), len: kani::any() },
        mem: SRegion { base: st.r[X_MEM_BASE], len: kani::any() },
        stack: SRegion { base: kani::any(), len: kani::any() },
        allowed: None,
    };
    if crate::WITNESS_MODE { kani::assume(small_world_regions((lay.mem.base, lay.mem.len), (lay.mbuff.base, lay.mbuff.len), (lay.stack.base, lay.stack.len))); }
    let hret: u64 = kani::any();
    let pre = SState { reg, pc, depth: 0, frames: default_frames() };
    let oracle = SOracle { load_data: st.load_data, helper_present: helper.is_some(), helper_ret: hret, entry_usage: None, next_imm: next.imm };
    let want = spec_step(&pre, si, &lay, &oracle);
    // C03: inputs on which the interpreter returns a value and every access is in bounds
    kani::assume(want.kind != SKind::Err);
    let (end, ip) = run(&mut st, &buf, 0, emitted, fuel);
    let got = ebpf_regs(&st);
    assert!(end != XEnd::Unsupported, "ensures: every emitted byte sequence decodes to an instruction of the x86 subset and stays inside its own code");
    assert!(end != XEnd::DivideError, "ensures: no divide error (division by zero yields 0 / leaves dst)");
    if opc == OP_EXIT {
        assert!(end == XEnd::Ret && ip == emitted, "ensures: exit is a single ret");
        assert!(regs_same_except(&got, &reg, 11, 11) && preserved_outside_map(&pre_x, &st.r) && st.sp_words == 0, "ensures: exit leaves every register as it is (r0 in rax)");
        return;
    }
    if opc == OP_CALL && insn.src == 0 {
        // helper call (C08): stops at `call rax`
        assert!(end == XEnd::CallReg && ip == emitted, "ensures: helper call ends with call rax");
        assert!(st.r[x86s::RAX] == (helper_fn as usize as u64), "ensures: the callee is the function registered under the id");
        assert!(st.r[x86s::RDI] == reg[1] && st.r[x86s::RSI] == reg[2] && st.r[x86s::RDX] == reg[3] && st.r[x86s::RCX] == reg[4] && st.r[8] == reg[5],
                "ensures: arguments (r1..r5) in rdi, rsi, rdx, rcx, r8");
        assert!(regs_same_except(&got, &reg, 0, 5) && preserved_outside_map(&pre_x, &st.r) && st.sp_words == 0, "ensures: r6-r10 live in callee-saved registers and are untouched; rsp balanced");
        assert!(st.naccess == 0, "ensures: no data access");
        return;
    }
    if opc == OP_CALL && insn.src == 1 {
        // local call (C07, JIT part): pushes r6..r9, call, pops in reverse
        let loc = match end { XEnd::CallAt(l) => l, _ => { assert!(false, "ensures: local call reaches a call rel32"); return; } };
        assert!(st.sp_words == 4 && st.stack[0] == reg[6] && st.stack[1] == reg[7] && st.stack[2] == reg[8] && st.stack[3] == reg[9],
                "ensures: r6-r9 saved on the native stack before the call");
        assert!(find_jump(&jit, loc) == Some(want.post.pc as isize), "ensures: call target is pc+1+imm");
        assert!(regs_same_except(&got, &reg, 10, 10), "ensures: the call passes r0-r5 through and leaves r6-r9 in place at entry of the callee");
        // the call instruction itself pushes 8 more bytes: the callee body must see the same alignment as the caller body
        assert!(st.r[x86s::RSP].wrapping_sub(8) % 16 == pre_x[x86s::RSP] % 16, "ensures: rsp modulo 16 is the same inside the callee as inside the caller (ABI alignment at helper call sites at every depth)");
        // the callee returns with arbitrary values in the saved registers; the pops must restore them
        st.r[3] = kani::any(); st.r[13] = kani::any(); st.r[14] = kani::any(); st.r[15] = kani::any();
        let (end2, ip2) = run(&mut st, &buf, ip, emitted, fuel);
        let back = ebpf_regs(&st);
        assert!(end2 == XEnd::Fallthrough && ip2 == emitted && st.sp_words == 0 && st.r[x86s::RSP] == pre_x[x86s::RSP], "ensures: after the return the frame is popped, rsp is back and execution falls through");
        assert!(back[6] == reg[6] && back[7] == reg[7] && back[8] == reg[8] && back[9] == reg[9] && back[10] == reg[10], "ensures: r6-r10 restored after the return");
        return;
    }
    // ---- ordinary instruction: compare with spec_step through the register map ----
    let next_pc: isize = match end {
        XEnd::Fallthrough => next_ptr as isize,
        XEnd::JumpAt(loc) => match find_jump(&jit, loc) { Some(t) => t, None => { assert!(false, "ensures: every rel32 placeholder is recorded for resolve_jumps"); return; } },
        _ => { assert!(false, "ensures: ordinary instructions end by falling through or by a recorded jump"); return; }
    };
    match clause {
        2 => assert!(next_pc == want.post.pc as isize, "ensures: next pc equals spec_step (branch taken iff the ISA says so, target pc+1+off)"),
        3 => assert!(regs_eq(&got, &want.post.reg), "ensures: register file (through the register map) equals spec_step"),
        4 => assert!(access_same(&st.access, st.naccess, &want.access), "ensures: data access equals spec_step (address, width, kind, value)"),
        _ => assert!(preserved_outside_map(&pre_x, &st.r) && st.sp_words == 0, "ensures: rsp, the packet base register and the native stack are left as found"),
    }
}
