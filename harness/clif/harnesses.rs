// Harnesses for src/cranelift.rs (compiled verbatim against the stub cranelift_* crates).
// One symbolic instruction at pc 0 followed by a filler and an exit; the stub evaluates the
// emitted IR eagerly, and the register file before / after the instruction is compared with
// spec_step (C04), the bounds check with the region predicate (C11), panics (C12).
use super::*;
use crate::spec::*;
use clif_core::{Access, Term, TRACE, ORACLE, Oracle};

fn helper_fn(a: u64, _b: u64, _c: u64, _d: u64, _e: u64) -> u64 { a }
fn helper_other(_a: u64, b: u64, _c: u64, _d: u64, _e: u64) -> u64 { b }

fn regs_of(v: &[u64; 24]) -> [u64; 11] { [v[0], v[1], v[2], v[3], v[4], v[5], v[6], v[7], v[8], v[9], v[10]] }

fn frames0() -> [SFrame; 8] { [SFrame { ret: 0, saved: [0; 4], usage: S_DEFAULT_FRAME }; 8] }

/// C11: an access is carried out iff all of its bytes lie inside the packet data, the metadata
/// buffer or the 512-byte stack (no registered ranges under Cranelift)
fn clif_allowed(addr: u64, width: u8, l: &SLayout) -> bool {
    let l2 = SLayout { mbuff: l.mbuff, mem: l.mem, stack: l.stack, allowed: None };
    access_allowed(addr, width, &l2)
}

fn same_access(a: &Access, s: &SAccess) -> bool {
    match s {
        SAccess::None => *a == Access::None,
        SAccess::Load { addr, width } => *a == Access::Load { addr: *addr, width: *width },
        SAccess::Store { addr, width, val } => *a == Access::Store { addr: *addr, width: *width, val: *val },
        SAccess::AtomicAdd { addr, width, val } => *a == Access::AtomicAdd { addr: *addr, width: *width, val: *val },
    }
}

/// hand the extractor's fact about the helper symbol-name templates to the stub module (see clif-core: Name)
pub fn init_names() { unsafe { clif_core::NAME_TEMPLATES_AGREE = crate::HELPER_NAME_TEMPLATES_AGREE; } }
/// harnesses that register no helper never compare two names: keep the cheap path whatever the templates are
pub fn init_names_unused() { unsafe { clif_core::NAME_TEMPLATES_AGREE = true; } }

pub fn run_clif(opc: u8) {
    crate::arith::reset();
    if opc == OP_CALL { init_names(); } else { init_names_unused(); }
    unsafe { clif_core::ARITH = clif_core::Arith { mul64: crate::arith::mul64, div64: crate::arith::div64, rem64: crate::arith::rem64, mul32: crate::arith::mul32, div32: crate::arith::div32, rem32: crate::arith::rem32 }; }
    let insn = ebpf::Insn { opc, dst: kani::any(), src: kani::any(), off: kani::any(), imm: kani::any() };
    let si = SInsn { opc, dst: insn.dst, src: insn.src, off: insn.off, imm: insn.imm };
    let next_imm: i32 = kani::any();
    let is_lddw = opc == OP_LDDW;
    // program: jumps: X ; filler ; filler ; exit (targets pc 1..3) - everything else: X ; [second half of lddw] ; exit
    let filler = ebpf::Insn { opc: 0xbf, dst: 0, src: 0, off: 0, imm: 0 };
    let second = ebpf::Insn { opc: 0, dst: 0, src: 0, off: 0, imm: next_imm };
    let exit = ebpf::Insn { opc: 0x95, dst: 0, src: 0, off: 0, imm: 0 };
    let jumpy = is_jump(opc);
    let n = if jumpy { 4usize } else if is_lddw { 3 } else { 2 };
    // requires: the facts verifier::check establishes for instruction 0 of this program
    kani::assume(wf_facts(&si, 0, n));
    kani::assume(opc != OP_TAIL_CALL);
    let mut prog_buf = [0u8; 32];
    let a0 = insn.to_array();
    let a1 = if is_lddw { second.to_array() } else if jumpy { filler.to_array() } else { exit.to_array() };
    let a2 = if jumpy { filler.to_array() } else { exit.to_array() };
    let a3 = exit.to_array();
    let mut k = 0;
    while k < 8 { prog_buf[k] = a0[k]; prog_buf[8 + k] = a1[k]; prog_buf[16 + k] = a2[k]; prog_buf[24 + k] = a3[k]; k += 1; }
    let prog = &prog_buf[..8 * n];
    // environment
    let mut init = [0u64; 24];
    let iv: [u64; 11] = kani::any();
    let mut j = 0;
    while j < 11 { init[j] = iv[j]; j += 1; }
    let mem = SRegion { base: kani::any(), len: kani::any() };
    let mbuff = SRegion { base: kani::any(), len: kani::any() };
    let stack_base: u64 = kani::any();
    // buffers the caller passes: no wrap; an empty buffer is passed as a null pointer (lib.rs wrappers, C09)
    kani::assume(mem.base.checked_add(mem.len).is_some() && mbuff.base.checked_add(mbuff.len).is_some() && stack_base.checked_add(512).is_some());
    kani::assume((mem.len == 0) == (mem.base == 0) && (mbuff.len == 0 || mbuff.base != 0) && stack_base != 0);
    if crate::WITNESS_MODE { kani::assume(small_world_regions((mem.base, mem.len), (mbuff.base, mbuff.len), (stack_base, 512)) && mem.len > 0 && mbuff.len > 0); }
    let load_data: u64 = kani::any();
    let call_ret: u64 = kani::any();
    unsafe { ORACLE = Oracle { load_data, call_ret, params: [mem.base, mem.len, mbuff.base, mbuff.len], stack_base, init_vars: init }; }
    // helpers only matter to CALL (registering them costs the rendering of their symbol names in every harness)
    let is_call_op = opc == OP_CALL;
    // (registered unconditionally for CALL: a symbolic NUMBER of symbols would make every name comparison symbolic)
    let has_helper: bool = is_call_op;
    let hkey: u32 = kani::any();
    let mut helpers: HashMap<u32, ebpf::Helper> = HashMap::new();
    if has_helper { helpers.insert(hkey, helper_fn); }
    // a second helper under another id: the call must reach the function registered under ITS id
    let has_other: bool = is_call_op;
    let okey: u32 = kani::any();
    if has_other { kani::assume(okey != hkey); helpers.insert(okey, helper_other); }
    // vacuity guard: the opcode-specific part of the precondition (wf_facts) is witnessed natively by
    // `replay wf-witness` on every run, the environment part by the harness clif_env_precondition_satisfiable
    let r = CraneliftCompiler::new(helpers).compile_function(prog);
    let is_call = opc == OP_CALL;
    let registered = (has_helper && hkey == insn.imm as u32) || (has_other && okey == insn.imm as u32);
    let clause: u8 = kani::any();
    if clause == 0 {
        // C04 / C08: eBPF-to-eBPF calls are refused; unknown helper ids are compile-time errors; nothing else fails
        if is_call && insn.src == 1 {
            assert!(r.is_err(), "ensures: a program containing an eBPF-to-eBPF call is refused by Cranelift compilation");
        } else if is_call && !registered {
            assert!(r.is_err(), "ensures: a call to an unregistered helper id is a compile-time error");
        } else {
            assert!(r.is_ok(), "ensures: every other verified instruction compiles");
        }
        return;
    }
    if r.is_err() { return; }
    let t = unsafe { TRACE };
    assert!(t.finalized && t.sealed, "ensures: the function is sealed and finalized");
    let pre_regs = regs_of(&t.at_srcloc[0]);
    let lay = SLayout { mbuff, mem, stack: SRegion { base: stack_base, len: 512 }, allowed: None };
    let pre = SState { reg: pre_regs, pc: 0, depth: 0, frames: frames0() };
    let oracle = SOracle { load_data, helper_present: registered, helper_ret: call_ret, entry_usage: None, next_imm };
    let want = spec_step(&pre, si, &lay, &oracle);
    let mem_class = opc & 7 <= 3 && !is_lddw;
    if clause == 1 && mem_class {
        // C11: the bounds check traps exactly when the access is not wholly inside mem / mbuff / stack, before the access
        let (addr, width) = match t.access { Access::Load { addr, width } => (addr, width), Access::Store { addr, width, .. } => (addr, width), Access::AtomicAdd { addr, width, .. } => (addr, width), Access::None => { assert!(false, "ensures: a memory instruction emits its access"); return; } };
        assert!(t.naccess == 1, "ensures: exactly one access per memory instruction");
        assert!(t.trapped == !clif_allowed(addr, width, &lay), "ensures: trap <=> some byte of the access lies outside packet data, metadata buffer and stack");
        assert!(!t.trapped || t.accesses_before_trap == 0, "ensures: the trap precedes the access (nothing outside the regions is read or written)");
        return;
    }
    // C04: inputs on which the interpreter returns a value with all accesses in bounds
    kani::assume(want.kind != SKind::Err);
    if mem_class && opc & 0xe0 != 0x60 && opc != OP_XADD_W && opc != OP_XADD_DW {
        // ld_abs / ld_ind: same reading of the immediate as the interpreter (imm as u32): no extra precondition
    }
    match clause {
        2 => {
            assert!(!t.trapped, "ensures: an execution the interpreter completes does not trap");
            assert!(same_access(&t.access, &want.access) && (t.naccess as usize) == (if want.access == SAccess::None { 0 } else { 1 }), "ensures: data access equals spec_step (address, width, kind, value)");
        }
        3 => {
            if opc == OP_EXIT {
                let b = t.block_at_srcloc[0] as usize;
                assert!(matches!(t.terms[b], Term::Return(v) if v == pre_regs[0]), "ensures: exit returns r0");
            } else if is_jump(opc) {
                let b = t.block_at_srcloc[0] as usize;
                let taken = want.post.pc != 1;
                let tgt_block = t.block_at_srcloc[if want.post.pc < 4 { want.post.pc } else { 0 }];
                match t.terms[b] {
                    Term::Jump(x) => assert!(opc == OP_JA && x == tgt_block, "ensures: ja jumps to the block of pc+1+off"),
                    Term::Brif { taken: tk, then_b, else_b } => {
                        let goes = if tk { then_b } else { else_b };
                        assert!(goes == tgt_block, "ensures: the branch goes to the block of the pc spec_step prescribes (taken iff the ISA says so)");
                    }
                    _ => assert!(false, "ensures: a jump instruction terminates its block with a jump or a conditional branch"),
                }
            } else {
                let post = regs_of(&t.at_srcloc[if is_lddw { 2 } else { 1 }]);
                assert!(regs_eq(&post, &want.post.reg), "ensures: register file after the instruction equals spec_step");
            }
        }
        4 => {
            if is_call {
                match t.call {
                    Some((f, a)) => {
                        assert!(t.ncalls == 1 && a[0] == pre_regs[1] && a[1] == pre_regs[2] && a[2] == pre_regs[3] && a[3] == pre_regs[4] && a[4] == pre_regs[5], "ensures: helper called once with (r1..r5)");
                        // the import is linked by NAME to the address registered with the JIT builder
                        let target = match &r { Ok(p) => p.module.resolve(f), Err(_) => None };
                        let want_fn = if has_helper && hkey == insn.imm as u32 { helper_fn as usize } else { helper_other as usize };
                        assert!(target == Some(want_fn), "ensures: the function called is the one registered under the id of the instruction (symbol names agree)");
                    }
                    None => assert!(false, "ensures: helper call emitted"),
                }
            } else {
                assert!(t.ncalls == 0, "ensures: no helper call");
            }
        }
        _ => {
            // C12: block discipline - every block that is switched to is terminated exactly once; what makes define_function succeed
            let mut b = 0;
            while b < clif_core::MAXB {
                if (b as u32) < t.nblocks && t.switched[b] > 0 { assert!(t.term_count[b] == 1, "ensures: every block that received instructions has exactly one terminator"); }
                b += 1;
            }
            assert!(t.block_at_srcloc[0] != u32::MAX, "ensures: instruction 0 is emitted into a block");
        }
    }
}

/// C09 (Cranelift part): what the function prelude hands to the program - r1 = metadata buffer if it is not
/// empty, else the packet data, else 0; r10 = top of a private 512-byte stack slot.  Every variable starts
/// with an arbitrary value, so the prelude has to define them.
#[kani::proof]
#[kani::unwind(14)]
fn clif_prelude() {
    init_names_unused();
    let exit = ebpf::Insn { opc: 0x95, dst: 0, src: 0, off: 0, imm: 0 };
    let prog = exit.to_array();
    let mut init = [0u64; 24];
    let iv: [u64; 11] = kani::any();
    let mut j = 0;
    while j < 11 { init[j] = iv[j]; j += 1; }
    let mem = SRegion { base: kani::any(), len: kani::any() };
    let mbuff = SRegion { base: kani::any(), len: kani::any() };
    let stack_base: u64 = kani::any();
    kani::assume(mem.base.checked_add(mem.len).is_some() && mbuff.base.checked_add(mbuff.len).is_some() && stack_base.checked_add(512).is_some());
    // the VM wrappers of lib.rs pass a null pointer for an empty packet (proved in unit vmapi)
    kani::assume((mem.len == 0) == (mem.base == 0) && stack_base != 0);
    unsafe { ORACLE = Oracle { load_data: 0, call_ret: 0, params: [mem.base, mem.len, mbuff.base, mbuff.len], stack_base, init_vars: init }; }
    let helpers: HashMap<u32, ebpf::Helper> = HashMap::new();
    let r = CraneliftCompiler::new(helpers).compile_function(&prog[..]);
    assert!(r.is_ok(), "ensures: a program that only exits compiles");
    let t = unsafe { TRACE };
    let regs = regs_of(&t.at_srcloc[0]);
    let clause: u8 = kani::any();
    match clause {
        0 => assert!(regs[1] == if mbuff.len != 0 { mbuff.base } else if mem.len != 0 { mem.base } else { 0 }, "ensures: r1 = metadata buffer (metadata VMs), else packet data (raw VMs), else 0 (no data / empty packet)"),
        1 => assert!(regs[10] == stack_base + 512 && t.stack_slot_size == 512 && t.nstack_slots == 1, "ensures: r10 = top of a private 512-byte stack slot"),
        _ => assert!(t.block_at_srcloc[0] != u32::MAX && t.naccess == 0 && t.ncalls == 0 && !t.trapped, "ensures: the prelude reaches instruction 0 without touching memory"),
    }
}

/// C12 (Cranelift): prepare_jump_blocks at ANY position of a program of ANY admissible length - the only
/// program-counter arithmetic of cranelift.rs (the per-opcode harnesses put the instruction at pc 0 of four).
/// For every jump / exit the verifier accepts: no panic, the instruction's entry maps to the blocks of
/// pc+1 and of pc+1+off (0 displacement for exit), at most two blocks are created.
#[kani::proof]
#[kani::unwind(14)]
fn clif_prepare_jump_blocks() {
    init_names_unused();
    let opc: u8 = kani::any();
    kani::assume(is_jump(opc) || opc == OP_EXIT);
    let insn = ebpf::Insn { opc, dst: kani::any(), src: kani::any(), off: kani::any(), imm: kani::any() };
    let si = SInsn { opc, dst: insn.dst, src: insn.src, off: insn.off, imm: insn.imm };
    let (pc, n): (usize, usize) = (kani::any(), kani::any());
    kani::assume(wf_facts(&si, pc, n));
    unsafe { ORACLE = Oracle { load_data: 0, call_ret: 0, params: [0; 4], stack_base: 0, init_vars: [0; 24] }; }
    let helpers: HashMap<u32, ebpf::Helper> = HashMap::new();
    let mut c = CraneliftCompiler::new(helpers);
    let sig = Signature { params: vec![AbiParam::new(I64)], returns: vec![AbiParam::new(I64)], call_conv: c.isa.default_call_conv() };
    let mut func = Function::with_name_signature(UserFuncName::testcase("h".as_bytes()), sig);
    let mut fctx = FunctionBuilderContext::new();
    let mut bcx = FunctionBuilder::new(&mut func, &mut fctx);
    // any earlier state of the block table that does not fill it (other instructions were processed before)
    let prior: bool = kani::any();
    let pk: u32 = kani::any();
    if prior { let b = bcx.create_block(); c.insn_blocks.insert(pk, b); }
    let blocks_before = bcx.t.nblocks;
    c.prepare_jump_blocks(&mut bcx, pc, &insn);
    let want_target = if opc == OP_EXIT { pc as u32 + 1 } else { (pc as i64 + 1 + insn.off as i64) as u32 };
    let clause: u8 = kani::any();
    match clause {
        0 => {
            let e = c.insn_targets.get(&(pc as u32));
            assert!(matches!(e, Some((f, t)) if c.insn_blocks.get(&(pc as u32 + 1)) == Some(f) && c.insn_blocks.get(&want_target) == Some(t)),
                    "ensures: the instruction is mapped to the block of pc+1 (fall-through) and the block of pc+1+off (target)");
        }
        1 => assert!(bcx.t.nblocks - blocks_before <= 2 && (!prior || c.insn_blocks.get(&pk).is_some()), "ensures: at most two blocks are created and existing entries are kept"),
        _ => assert!(!prior || (pk != pc as u32 + 1 && pk != want_target) || bcx.t.nblocks - blocks_before <= 1, "ensures: an existing block for a continuation point is reused, not replaced"),
    }
}

/// vacuity guard for the environment assumptions of run_clif (they do not depend on the opcode)
#[kani::proof]
fn clif_env_precondition_satisfiable() {
    let mem = SRegion { base: kani::any(), len: kani::any() };
    let mbuff = SRegion { base: kani::any(), len: kani::any() };
    let stack_base: u64 = kani::any();
    kani::assume(mem.base.checked_add(mem.len).is_some() && mbuff.base.checked_add(mbuff.len).is_some() && stack_base.checked_add(512).is_some());
    kani::assume((mem.len == 0) == (mem.base == 0) && (mbuff.len == 0 || mbuff.base != 0) && stack_base != 0);
    kani::cover!(mem.len > 0 && mbuff.len > 0, "requires: environment with packet and metadata buffer");
    kani::cover!(mem.len == 0 && mbuff.len == 0, "requires: environment without buffers");
}
