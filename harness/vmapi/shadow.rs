// ---------------- shadows (trusted; not extracted from /repo) ----------------
#[derive(Debug)]
pub struct Error;
#[derive(Debug)]
pub enum ErrorKind { Other }
impl Error {
    pub fn other<T>(_m: T) -> Error { Error }
    pub fn new<T>(_k: ErrorKind, _m: T) -> Error { Error }
}
pub struct FmtRecord;

/// (address, length) of a program slice: the identity of "the program the caller loaded"
pub type ProgTag = (usize, usize);
pub fn tag(p: &[u8]) -> ProgTag { (p.as_ptr() as usize, p.len()) }

pub mod lib {
    pub use core::any::Any;
    pub use core::ptr;
    pub use std::boxed::Box;
    pub use std::string::{String, ToString};
    pub use std::vec::Vec;
    pub use crate::{Error, ErrorKind};
    /// `format!` builds an error message only
    #[macro_export]
    macro_rules! format { ($($t:tt)*) => { $crate::FmtRecord }; }
    /// `vec![0u8; n]` of the fixed-metadata buffer: real allocation, BOUNDED to 128 bytes
    #[macro_export]
    macro_rules! vec { () => { std::vec::Vec::new() }; ($($x:expr),+ $(,)?) => { std::vec![$($x),+] }; ($v:expr; $n:expr) => {{ let n = $n; kani::assume(n <= 128); std::vec![$v; n] }}; }
    /// helpers table: a real (tiny) map - exact semantics for up to 3 keys
    #[derive(Clone)]
    pub struct HashMap<K, V> { pub k: [Option<K>; 3], pub v: [Option<V>; 3], pub n: usize,
                               /// ghost: bumped by every mutation, so that compiled code can remember which registrations it saw
                               pub ver: u32 }
    impl<K: Copy + PartialEq, V: Copy> HashMap<K, V> {
        pub fn new() -> Self { HashMap { k: [None; 3], v: [None; 3], n: 0, ver: 0 } }
        fn find(&self, key: &K) -> Option<usize> {
            let mut i = 0;
            let mut r = None;
            while i < 3 { if i < self.n && self.k[i] == Some(*key) { r = Some(i); } i += 1; }
            r
        }
        pub fn get(&self, key: &K) -> Option<&V> { match self.find(key) { Some(i) => self.v[i].as_ref(), None => None } }
        pub fn insert(&mut self, key: K, val: V) -> Option<V> {
            self.ver = self.ver.wrapping_add(1);
            match self.find(&key) {
                Some(i) => self.v[i].replace(val),
                None => { assert!(self.n < 3, "harness container capacity exceeded"); self.k[self.n] = Some(key); self.v[self.n] = Some(val); self.n += 1; None }
            }
        }
        pub fn entry(&mut self, key: K) -> Entry<'_, K, V> { Entry { m: self, key } }
    }
    pub struct Entry<'a, K, V> { m: &'a mut HashMap<K, V>, key: K }
    impl<'a, K: Copy + PartialEq, V: Copy> Entry<'a, K, V> {
        pub fn or_insert(self, v: V) -> &'a mut V {
            let i = match self.m.find(&self.key) { Some(i) => i, None => { self.m.insert(self.key, v); self.m.n - 1 } };
            self.m.v[i].as_mut().unwrap()
        }
    }
    #[derive(Clone)]
    pub struct HashSet<T> { pub last: Option<T>, pub ninsert: u8 }
    impl<T> HashSet<T> {
        pub fn new() -> Self { HashSet { last: None, ninsert: 0 } }
        pub fn insert(&mut self, v: T) -> bool { self.last = Some(v); if self.ninsert < 250 { self.ninsert += 1; } true }
    }
}
/// only the helper type is needed at this level
pub mod ebpf { pub type Helper = fn(u64, u64, u64, u64, u64) -> u64; }

/// verifiers: deterministic functions of the program bytes (bit k of the first byte)
pub mod verifier {
    use crate::Error;
    pub fn check(prog: &[u8]) -> Result<(), Error> { if prog.len() > 0 && prog[0] & 1 != 0 { Ok(()) } else { Err(Error) } }
}
pub fn verifier_custom(prog: &[u8]) -> Result<(), Error> { if prog.len() > 0 && prog[0] & 2 != 0 { Ok(()) } else { Err(Error) } }
pub fn verifier_accept_all(_prog: &[u8]) -> Result<(), Error> { Ok(()) }
pub fn verifier_reject_all(_prog: &[u8]) -> Result<(), Error> { Err(Error) }

pub mod stack {
    use crate::lib::*;
    use crate::{tag, ProgTag, StackUsageCalculator};
    /// remembers which program it was computed from, and with which calculator
    pub struct StackUsage { pub from: ProgTag, pub with_calc: bool }
    pub struct StackVerifier { pub calc: bool }
    impl StackVerifier {
        pub fn new(c: Option<StackUsageCalculator>, _d: Option<Box<dyn Any>>) -> Self { StackVerifier { calc: c.is_some() } }
        /// contract of the real stack_validate: Ok(table computed from `prog`) (an Err is allowed for)
        pub fn stack_validate(&mut self, prog: &[u8]) -> Result<StackUsage, Error> {
            if kani::any() { Ok(StackUsage { from: tag(prog), with_calc: self.calc }) } else { Err(Error) }
        }
    }
}

#[derive(Clone, Copy, PartialEq, Eq)]
pub struct InterpCall { pub prog: Option<ProgTag>, pub usage_from: Option<ProgTag>, pub mem: ProgTag, pub mbuff: ProgTag, pub mbuff_d: u64, pub mbuff_e: u64 }
pub static mut INTERP_CALLS: u8 = 0;
pub static mut INTERP_LAST: Option<InterpCall> = None;
pub static mut PROBE: (usize, usize) = (0, 0); // offsets the harness wants read out of mbuff
pub mod interpreter {
    use crate::lib::*;
    use crate::*;
    /// head of the real execute_program: no program => Err; otherwise runs `prog_` (C01..C08)
    pub fn execute_program(prog_: Option<&[u8]>, stack_usage: Option<&stack::StackUsage>, mem: &[u8], mbuff: &[u8],
                           _helpers: &HashMap<u32, ebpf::Helper>, _allowed: &HashSet<core::ops::Range<u64>>) -> Result<u64, Error> {
        let rd = |off: usize| -> u64 {
            if off + 8 <= mbuff.len() { u64::from_le_bytes([mbuff[off], mbuff[off+1], mbuff[off+2], mbuff[off+3], mbuff[off+4], mbuff[off+5], mbuff[off+6], mbuff[off+7]]) } else { 0 }
        };
        unsafe {
            if INTERP_CALLS < 250 { INTERP_CALLS += 1; }
            INTERP_LAST = Some(InterpCall { prog: prog_.map(tag), usage_from: stack_usage.map(|u| u.from), mem: tag(mem), mbuff: tag(mbuff),
                                            mbuff_d: rd(PROBE.0), mbuff_e: rd(PROBE.1) });
        }
        match prog_ { None => Err(Error), Some(_) => Ok(kani::any()) }
    }
}

#[derive(Clone, Copy, PartialEq, Eq)]
pub struct NativeCall { pub from: ProgTag, pub a: [usize; 6], pub mbuff_d: u64, pub mbuff_e: u64 }
pub static mut NATIVE_CALLS: u8 = 0;
pub static mut NATIVE_LAST: Option<NativeCall> = None;
pub static mut NATIVE_FROM: ProgTag = (0, 0);
pub mod jit {
    use crate::lib::*;
    use crate::*;
    pub type MachineCode = unsafe fn(*mut u8, usize, *mut u8, usize, usize, usize) -> u64;
    /// ghost: which program (and mode) this code was compiled from
    pub struct JitMemory<'a> { pub from: ProgTag, pub helpers_ver: u32, pub use_mbuff: bool, pub update_data_ptr: bool, pub _p: core::marker::PhantomData<&'a ()> }
    unsafe fn entry(mbuff: *mut u8, mbuff_len: usize, mem: *mut u8, mem_len: usize, d: usize, e: usize) -> u64 {
        unsafe {
            if NATIVE_CALLS < 250 { NATIVE_CALLS += 1; }
            NATIVE_LAST = Some(NativeCall { from: NATIVE_FROM, a: [mbuff as usize, mbuff_len, mem as usize, mem_len, d, e], mbuff_d: 0, mbuff_e: 0 });
        }
        kani::any()
    }
    impl<'a> JitMemory<'a> {
        #[cfg(feature = "std")]
        pub fn new(prog: &[u8], _helpers: &HashMap<u32, ebpf::Helper>, use_mbuff: bool, update_data_ptr: bool) -> Result<JitMemory<'a>, Error> {
            if kani::any() { Ok(JitMemory { from: tag(prog), helpers_ver: _helpers.ver, use_mbuff, update_data_ptr, _p: core::marker::PhantomData }) } else { Err(Error) }
        }
        #[cfg(not(feature = "std"))]
        pub fn new(prog: &[u8], _exec: &'a mut [u8], _helpers: &HashMap<u32, ebpf::Helper>, use_mbuff: bool, update_data_ptr: bool) -> Result<JitMemory<'a>, Error> {
            if kani::any() { Ok(JitMemory { from: tag(prog), helpers_ver: _helpers.ver, use_mbuff, update_data_ptr, _p: core::marker::PhantomData }) } else { Err(Error) }
        }
        pub fn get_prog(&self) -> MachineCode { unsafe { NATIVE_FROM = self.from; } entry }
    }
}
#[cfg(feature = "cranelift")]
pub mod cranelift {
    use crate::lib::*;
    use crate::*;
    pub struct CraneliftCompiler { helpers_ver: u32 }
    pub struct CraneliftProgram { pub from: ProgTag, pub helpers_ver: u32 }
    impl CraneliftCompiler {
        pub fn new(_helpers: HashMap<u32, ebpf::Helper>) -> Self { CraneliftCompiler { helpers_ver: _helpers.ver } }
        pub fn compile_function(self, prog: &[u8]) -> Result<CraneliftProgram, Error> {
            if kani::any() { Ok(CraneliftProgram { from: tag(prog), helpers_ver: self.helpers_ver }) } else { Err(Error) }
        }
    }
    impl CraneliftProgram {
        pub fn execute(&self, mem_ptr: *mut u8, mem_len: usize, mbuff_ptr: *mut u8, mbuff_len: usize) -> u64 {
            let rd = |off: usize| -> u64 {
                if off + 8 <= mbuff_len { let mut b = [0u8; 8]; let mut k = 0; while k < 8 { b[k] = unsafe { *mbuff_ptr.add(off + k) }; k += 1; } u64::from_le_bytes(b) } else { 0 }
            };
            unsafe {
                if NATIVE_CALLS < 250 { NATIVE_CALLS += 1; }
                NATIVE_LAST = Some(NativeCall { from: self.from, a: [mbuff_ptr as usize, mbuff_len, mem_ptr as usize, mem_len, 0, 0], mbuff_d: rd(PROBE.0), mbuff_e: rd(PROBE.1) });
            }
            kani::any()
        }
    }
}
