// Harnesses for the VM API (C10: representation invariant preserved by every method,
// failed set_* leave the VM unchanged, no-program / not-compiled errors; C09: execution
// context handed to the three engines).  Not extracted from /repo.
use super::*;
use crate::jit::JitMemory;
#[cfg(feature = "cranelift")]
use crate::cranelift::CraneliftProgram;
use crate::stack::{StackUsage, StackVerifier};

fn pick_verifier(k: u8) -> Verifier {
    match k { 0 => verifier::check, 1 => verifier_custom, 2 => verifier_accept_all, _ => verifier_reject_all }
}
fn accepts(k: u8, p: &[u8]) -> bool {
    match k { 0 => p[0] & 1 != 0, 1 => p[0] & 2 != 0, 2 => true, _ => false }
}
fn any_kind() -> u8 { let k: u8 = kani::any(); kani::assume(k < 4); k }
fn any_tag() -> ProgTag { (kani::any(), kani::any()) }

/// abstract view of a VM (what C10 calls "behaving exactly as before")
#[derive(Clone, Copy, PartialEq, Eq)]
struct View { prog: Option<ProgTag>, usage: Option<(ProgTag, bool)>, jit: Option<ProgTag>, clif: Option<ProgTag>, verifier: usize, calc: bool }
fn view(vm: &EbpfVmMbuff) -> View {
    View {
        prog: vm.prog.map(tag),
        usage: vm.stack_usage.as_ref().map(|u| (u.from, u.with_calc)),
        jit: vm.jit.as_ref().map(|j| j.from),
        #[cfg(feature = "cranelift")]
        clif: vm.cranelift_prog.as_ref().map(|c| c.from),
        #[cfg(not(feature = "cranelift"))]
        clif: None,
        verifier: vm.verifier as usize,
        calc: vm.stack_verifier.calc,
    }
}

/// representation invariant I(vm); `vk` = which verifier is in force (ghost)
fn inv(vm: &EbpfVmMbuff, vk: u8) -> bool {
    let v = view(vm);
    (vm.verifier as usize == pick_verifier(vk) as usize)
        && match vm.prog {
            None => v.usage.is_none(),
            Some(p) => p.len() > 0 && accepts(vk, p) && match v.usage { Some((f, _)) => f == tag(p), None => false },
        }
        && (v.jit.is_none() || v.jit == v.prog)
        && (v.clif.is_none() || v.clif == v.prog)
}

/// an arbitrary VM: any program loaded or none, any verifier, any compiled artefacts
fn any_vm<'a>(cur: &'a [u8]) -> (EbpfVmMbuff<'a>, u8) {
    let vk = any_kind();
    let has_prog: bool = kani::any();
    let vm = EbpfVmMbuff {
        prog: if has_prog { Some(cur) } else { None },
        verifier: pick_verifier(vk),
        jit: if kani::any() { Some(JitMemory { from: any_tag(), helpers_ver: kani::any(), use_mbuff: kani::any(), update_data_ptr: kani::any(), _p: core::marker::PhantomData }) } else { None },
        #[cfg(not(feature = "std"))]
        custom_exec_memory: if kani::any() { Some(unsafe { &mut EXEC_MEM[..] }) } else { None },
        #[cfg(feature = "cranelift")]
        cranelift_prog: if kani::any() { Some(CraneliftProgram { from: any_tag(), helpers_ver: kani::any() }) } else { None },
        helpers: { let mut h = lib::HashMap::new(); h.ver = kani::any(); h },
        allowed_memory: lib::HashSet::new(),
        stack_usage: if kani::any() { Some(StackUsage { from: any_tag(), with_calc: kani::any() }) } else { None },
        stack_verifier: StackVerifier { calc: kani::any() },
    };
    (vm, vk)
}

#[cfg(not(feature = "std"))]
static mut EXEC_MEM: [u8; 16] = [0; 16];

fn reset() { unsafe { INTERP_CALLS = 0; INTERP_LAST = None; NATIVE_CALLS = 0; NATIVE_LAST = None; } }

// ------------------------------------------------------------------ EbpfVmMbuff
#[kani::proof]
fn mbuff_new() {
    let p: [u8; 8] = kani::any();
    let with: bool = kani::any();
    match EbpfVmMbuff::new(if with { Some(&p) } else { None }) {
        Ok(vm) => {
            assert!(inv(&vm, 0), "ensures: I holds after new (default verifier in force)");
            assert!(vm.prog.map(tag) == if with { Some(tag(&p)) } else { None }, "ensures: the program loaded is the one passed");
            assert!(!with || accepts(0, &p), "ensures: a program is stored only if the default verifier accepts it");
            assert!(vm.jit.is_none(), "ensures: nothing is compiled yet");
        }
        Err(_) => assert!(with, "ensures: new(None) succeeds"),
    }
}

#[kani::proof]
fn mbuff_set_program() {
    let (p1, p2): ([u8; 8], [u8; 8]) = (kani::any(), kani::any());
    let (mut vm, vk) = any_vm(&p1);
    kani::assume(inv(&vm, vk));
    kani::cover!(vm.jit.is_some(), "requires: states with compiled code are included");
    let before = view(&vm);
    match vm.set_program(&p2) {
        Ok(()) => {
            assert!(vm.prog.map(tag) == Some(tag(&p2)), "ensures: the program that runs is the one most recently loaded");
            assert!(accepts(vk, &p2), "ensures: it was accepted by the verifier in force");
            assert!(inv(&vm, vk), "ensures: I preserved by set_program (compiled code belongs to the loaded program)");
        }
        Err(_) => assert!(view(&vm) == before, "ensures: a failed set_program leaves the VM exactly as before"),
    }
}

#[kani::proof]
fn mbuff_set_verifier() {
    let p1: [u8; 8] = kani::any();
    let (mut vm, vk) = any_vm(&p1);
    kani::assume(inv(&vm, vk));
    let before = view(&vm);
    let nk = any_kind();
    match vm.set_verifier(pick_verifier(nk)) {
        Ok(()) => assert!(inv(&vm, nk) && view(&vm).prog == before.prog, "ensures: I preserved by set_verifier (the new verifier accepts the loaded program)"),
        Err(_) => assert!(view(&vm) == before, "ensures: a failed set_verifier leaves the VM exactly as before"),
    }
}

fn calc(_p: &[u8], _pc: usize, _d: &mut dyn lib::Any) -> u16 { 64 }
#[kani::proof]
fn mbuff_set_stack_usage_calculator() {
    let p1: [u8; 8] = kani::any();
    let (mut vm, vk) = any_vm(&p1);
    kani::assume(inv(&vm, vk));
    let before = view(&vm);
    match vm.set_stack_usage_calculator(calc, lib::Box::new(0u8)) {
        Ok(()) => {
            assert!(inv(&vm, vk), "ensures: I preserved by set_stack_usage_calculator");
            assert!(vm.stack_verifier.calc && (vm.prog.is_none() || view(&vm).usage.map(|u| u.1) == Some(true)), "ensures: frame sizes of the loaded program recomputed with the new calculator");
        }
        Err(_) => assert!(view(&vm) == before, "ensures: a failed set_stack_usage_calculator leaves the VM exactly as before"),
    }
}

#[kani::proof]
fn mbuff_register() {
    let p1: [u8; 8] = kani::any();
    let (mut vm, vk) = any_vm(&p1);
    kani::assume(inv(&vm, vk));
    let before = view(&vm);
    let (k, k0): (u32, u32) = (kani::any(), kani::any());
    fn h(a: u64, _b: u64, _c: u64, _d: u64, _e: u64) -> u64 { a }
    fn g(_a: u64, b: u64, _c: u64, _d: u64, _e: u64) -> u64 { b }
    // any earlier registration, possibly under the same id
    if kani::any() { vm.helpers.insert(k0, g); }
    assert!(vm.register_helper(k, h).is_ok(), "ensures: register_helper succeeds");
    vm.register_allowed_memory(3..9);
    assert!(view(&vm) == before && inv(&vm, vk), "ensures: registering helpers / ranges does not touch program, verifier or compiled code");
    assert!(matches!(vm.helpers.get(&k), Some(f) if *f as usize == h as usize), "ensures: the function registered under an id is the one most recently registered for it");
    assert!(k0 == k || vm.helpers.n == 0 || vm.helpers.n == 1 || matches!(vm.helpers.get(&k0), Some(f) if *f as usize == g as usize), "ensures: other ids keep their function");
}

#[kani::proof]
fn mbuff_jit_compile() {
    let p1: [u8; 8] = kani::any();
    let (mut vm, vk) = any_vm(&p1);
    kani::assume(inv(&vm, vk));
    let before = view(&vm);
    match vm.jit_compile() {
        Ok(()) => {
            assert!(before.prog.is_some(), "ensures: compiling with no program loaded is an error");
            assert!(view(&vm).jit == before.prog && inv(&vm, vk), "ensures: the compiled code is compiled from the loaded program");
            assert!(matches!(&vm.jit, Some(j) if j.use_mbuff && !j.update_data_ptr), "ensures: metadata VM: r1 = mbuff, buffer not written by the prologue");
            assert!(matches!(&vm.jit, Some(j) if j.helpers_ver == vm.helpers.ver), "ensures: an explicit compile always compiles against the helpers registered now (C10: results depend on the registered helpers)");
        }
        Err(_) => assert!(view(&vm) == before, "ensures: a failed jit_compile changes nothing"),
    }
}

#[cfg(feature = "cranelift")]
#[kani::proof]
fn mbuff_cranelift_compile() {
    let p1: [u8; 8] = kani::any();
    let (mut vm, vk) = any_vm(&p1);
    kani::assume(inv(&vm, vk));
    let before = view(&vm);
    match vm.cranelift_compile() {
        Ok(()) => {
            assert!(before.prog.is_some(), "ensures: compiling with no program loaded is an error");
            assert!(view(&vm).clif == before.prog && inv(&vm, vk), "ensures: the Cranelift artefact is compiled from the loaded program");
            assert!(matches!(&vm.cranelift_prog, Some(j) if j.helpers_ver == vm.helpers.ver), "ensures: an explicit compile always compiles against the helpers registered now (C10: results depend on the registered helpers)");
        }
        Err(_) => assert!(view(&vm) == before, "ensures: a failed cranelift_compile changes nothing"),
    }
}

#[kani::proof]
fn mbuff_execute_program() {
    let p1: [u8; 8] = kani::any();
    let (vm, vk) = any_vm(&p1);
    kani::assume(inv(&vm, vk));
    let (mem, mb): ([u8; 4], [u8; 4]) = (kani::any(), kani::any());
    reset();
    let r = vm.execute_program(&mem, &mb);
    let c = unsafe { INTERP_LAST }.unwrap();
    assert!(unsafe { INTERP_CALLS } == 1 && c.prog == view(&vm).prog && c.usage_from == c.prog, "ensures: the interpreter runs the loaded program with the frame sizes computed from it");
    assert!(c.mem == tag(&mem) && c.mbuff == tag(&mb), "ensures: packet data and metadata buffer are the caller's");
    assert!(vm.prog.is_some() || r.is_err(), "ensures: executing with no program loaded is an error");
}

#[kani::proof]
fn mbuff_execute_program_jit() {
    let p1: [u8; 8] = kani::any();
    let (vm, vk) = any_vm(&p1);
    kani::assume(inv(&vm, vk));
    let mut mem: [u8; 4] = kani::any();
    let mut mb: [u8; 4] = kani::any();
    let n: usize = kani::any();
    kani::assume(n <= 4);
    let (mp, bp) = (mem.as_ptr() as usize, mb.as_ptr() as usize);
    reset();
    let r = unsafe { vm.execute_program_jit(&mut mem[..n], &mut mb) };
    match view(&vm).jit {
        None => assert!(r.is_err() && unsafe { NATIVE_CALLS } == 0, "ensures: executing code that was never compiled is an error"),
        Some(_) => {
            let c = unsafe { NATIVE_LAST }.unwrap();
            assert!(r.is_ok() && unsafe { NATIVE_CALLS } == 1 && Some(c.from) == view(&vm).prog, "ensures: the code that runs was compiled from the loaded program");
            assert!(c.a == [bp, 4, if n == 0 { 0 } else { mp }, n, 0, 0], "ensures: (mbuff, len, mem or null when empty, len, 0, 0) handed to the compiled code");
        }
    }
}

#[cfg(feature = "cranelift")]
#[kani::proof]
fn mbuff_execute_program_cranelift() {
    let p1: [u8; 8] = kani::any();
    let (vm, vk) = any_vm(&p1);
    kani::assume(inv(&vm, vk));
    let mut mem: [u8; 4] = kani::any();
    let mut mb: [u8; 4] = kani::any();
    let n: usize = kani::any();
    kani::assume(n <= 4);
    let (mp, bp) = (mem.as_ptr() as usize, mb.as_ptr() as usize);
    reset();
    let r = vm.execute_program_cranelift(&mut mem[..n], &mut mb);
    match view(&vm).clif {
        None => assert!(r.is_err() && unsafe { NATIVE_CALLS } == 0, "ensures: executing code that was never compiled is an error"),
        Some(_) => {
            let c = unsafe { NATIVE_LAST }.unwrap();
            assert!(r.is_ok() && Some(c.from) == view(&vm).prog, "ensures: the Cranelift code that runs was compiled from the loaded program");
            assert!(c.a[0] == bp && c.a[1] == 4 && c.a[2] == (if n == 0 { 0 } else { mp }) && c.a[3] == n, "ensures: (mem or null when empty, len, mbuff, len) handed to the compiled code");
        }
    }
}

// ------------------------------------------------------------------ EbpfVmFixedMbuff (C09 + C10)
fn buff_len(d: usize, e: usize) -> usize { if d >= e { d + 8 } else { e + 8 } }
fn any_fixed<'a>(cur: &'a [u8]) -> (EbpfVmFixedMbuff<'a>, u8) { any_fixed_b(cur, 120) }
fn any_fixed_b<'a>(cur: &'a [u8], bound: usize) -> (EbpfVmFixedMbuff<'a>, u8) {
    let (parent, vk) = any_vm(cur);
    let (d, e): (usize, usize) = (kani::any(), kani::any());
    kani::assume(d <= bound && e <= bound); // BOUNDED
    let buffer = std::vec![0u8; buff_len(d, e)];
    (EbpfVmFixedMbuff { parent, mbuff: MetaBuff { data_offset: d, data_end_offset: e, buffer } }, vk)
}
fn all_zero(b: &[u8]) -> bool { let mut ok = true; let mut k = 0; while k < b.len() { if b[k] != 0 { ok = false; } k += 1; } ok }
fn same_bytes(a: &[u8], b: &[u8]) -> bool { if a.len() != b.len() { return false; } let mut ok = true; let mut k = 0; while k < a.len() { if a[k] != b[k] { ok = false; } k += 1; } ok }
fn fixed_view(vm: &EbpfVmFixedMbuff) -> (View, usize, usize, usize) { (view(&vm.parent), vm.mbuff.data_offset, vm.mbuff.data_end_offset, vm.mbuff.buffer.len()) }
fn fixed_inv(vm: &EbpfVmFixedMbuff, vk: u8) -> bool { inv(&vm.parent, vk) && vm.mbuff.buffer.len() == buff_len(vm.mbuff.data_offset, vm.mbuff.data_end_offset) }

#[kani::proof]
#[kani::unwind(130)]
fn bounded_fixed_new() {
    let p: [u8; 8] = kani::any();
    let (d, e): (usize, usize) = (kani::any(), kani::any());
    kani::assume(d <= 120 && e <= 120);
    if let Ok(vm) = EbpfVmFixedMbuff::new(Some(&p), d, e) {
        assert!(fixed_inv(&vm, 0) && vm.mbuff.data_offset == d && vm.mbuff.data_end_offset == e, "ensures: buffer sized max(offsets)+8, offsets recorded, I holds");
        assert!(all_zero(&vm.mbuff.buffer), "ensures: a new fixed-metadata VM starts with a zeroed buffer");
    }
}

#[kani::proof]
#[kani::unwind(28)]
fn bounded_fixed_set_program() {
    let (p1, p2): ([u8; 8], [u8; 8]) = (kani::any(), kani::any());
    let (mut vm, vk) = any_fixed_b(&p1, 16);
    kani::assume(fixed_inv(&vm, vk));
    // earlier executions (and earlier programs) may have left anything in the buffer: one arbitrary byte at an
    // arbitrary place stands for it
    let dirty: usize = kani::any();
    if dirty < vm.mbuff.buffer.len() { vm.mbuff.buffer[dirty] = kani::any(); }
    let before = fixed_view(&vm);
    let before_buf = vm.mbuff.buffer.clone();
    let (d, e): (usize, usize) = (kani::any(), kani::any());
    kani::assume(d <= 16 && e <= 16); // BOUNDED more tightly than the other harnesses: Vec reallocation (a change that resizes instead of replacing) is very expensive for CBMC
    match vm.set_program(&p2, d, e) {
        Ok(()) => {
            assert!(fixed_inv(&vm, vk) && vm.parent.prog.map(tag) == Some(tag(&p2)) && vm.mbuff.data_offset == d && vm.mbuff.data_end_offset == e,
                    "ensures: program and offsets replaced together, I preserved");
            // C10: what the new program sees does not depend on executions before the reload
            assert!(all_zero(&vm.mbuff.buffer), "ensures: a successful set_program hands the new program a zeroed buffer (nothing of earlier executions survives)");
        }
        Err(_) => {
            assert!(fixed_view(&vm) == before, "ensures: a failed set_program leaves program, offsets and buffer exactly as before");
            assert!(same_bytes(&vm.mbuff.buffer, &before_buf), "ensures: a failed set_program leaves the buffer contents as before");
        }
    }
}

#[kani::proof]
#[kani::unwind(130)]
fn bounded_fixed_execute_program() {
    let p1: [u8; 8] = kani::any();
    let (mut vm, vk) = any_fixed(&p1);
    kani::assume(fixed_inv(&vm, vk));
    let (d, e) = (vm.mbuff.data_offset, vm.mbuff.data_end_offset);
    kani::assume(d + 8 <= e || e + 8 <= d); // non-overlapping offsets
    static mut PKT: [u8; 6] = [0; 6];
    let n: usize = kani::any();
    kani::assume(n <= 6);
    let mem: &'static mut [u8] = unsafe { &mut PKT[..n] };
    let mp = mem.as_ptr() as u64;
    let bt = tag(&vm.mbuff.buffer);
    reset();
    unsafe { PROBE = (d, e); }
    let r = vm.execute_program(mem);
    let c = unsafe { INTERP_LAST }.unwrap();
    assert!(c.prog == view(&vm.parent).prog && c.mbuff == bt, "ensures: the interpreter gets the loaded program and the internal buffer as metadata buffer");
    assert!(c.mbuff_d == mp && c.mbuff_e == mp + n as u64, "ensures: buffer holds &packet[0] at data_offset and one-past-the-end at data_end_offset");
}

#[kani::proof]
#[kani::unwind(130)]
fn bounded_fixed_execute_program_jit() {
    let p1: [u8; 8] = kani::any();
    let (mut vm, vk) = any_fixed(&p1);
    kani::assume(fixed_inv(&vm, vk));
    let (d, e) = (vm.mbuff.data_offset, vm.mbuff.data_end_offset);
    static mut PKT: [u8; 6] = [0; 6];
    let n: usize = kani::any();
    kani::assume(n <= 6);
    let mem: &'static mut [u8] = unsafe { &mut PKT[..n] };
    let mp = mem.as_ptr() as usize;
    let bt = tag(&vm.mbuff.buffer);
    reset();
    let r = unsafe { vm.execute_program_jit(mem) };
    match view(&vm.parent).jit {
        None => assert!(r.is_err() && unsafe { NATIVE_CALLS } == 0, "ensures: executing code that was never compiled is an error"),
        Some(_) => {
            let c = unsafe { NATIVE_LAST }.unwrap();
            assert!(Some(c.from) == view(&vm.parent).prog, "ensures: the code that runs was compiled from the loaded program");
            assert!(c.a == [bt.0, bt.1, if n == 0 { 0 } else { mp }, n, d, e], "ensures: (buffer, len, packet or null, len, data_offset, data_end_offset) handed to the compiled code, which stores the pointers (JIT prologue contract)");
        }
    }
}

#[cfg(feature = "cranelift")]
#[kani::proof]
#[kani::unwind(130)]
fn bounded_fixed_execute_program_cranelift() {
    let p1: [u8; 8] = kani::any();
    let (mut vm, vk) = any_fixed(&p1);
    kani::assume(fixed_inv(&vm, vk));
    let (d, e) = (vm.mbuff.data_offset, vm.mbuff.data_end_offset);
    kani::assume(d + 8 <= e || e + 8 <= d);
    static mut PKT: [u8; 6] = [0; 6];
    let n: usize = kani::any();
    kani::assume(n <= 6);
    let mem: &'static mut [u8] = unsafe { &mut PKT[..n] };
    let mp = mem.as_ptr() as u64;
    let bt = tag(&vm.mbuff.buffer);
    reset();
    unsafe { PROBE = (d, e); }
    let r = vm.execute_program_cranelift(mem);
    if view(&vm.parent).clif.is_some() {
        let c = unsafe { NATIVE_LAST }.unwrap();
        assert!(Some(c.from) == view(&vm.parent).prog && c.a[0] == bt.0 && c.a[1] == bt.1, "ensures: Cranelift code of the loaded program runs on the internal buffer");
        assert!(c.mbuff_d == mp && c.mbuff_e == mp + n as u64, "ensures: buffer holds &packet[0] at data_offset and one-past-the-end at data_end_offset");
    } else {
        assert!(r.is_err(), "ensures: executing code that was never compiled is an error");
    }
}

#[kani::proof]
#[kani::unwind(130)]
fn bounded_fixed_jit_compile() {
    let p1: [u8; 8] = kani::any();
    let (mut vm, vk) = any_fixed(&p1);
    kani::assume(fixed_inv(&vm, vk));
    let before = fixed_view(&vm);
    match vm.jit_compile() {
        Ok(()) => assert!(before.0.prog.is_some() && view(&vm.parent).jit == before.0.prog && matches!(&vm.parent.jit, Some(j) if j.use_mbuff && j.update_data_ptr) && fixed_inv(&vm, vk),
                          "ensures: compiled from the loaded program in the mode whose prologue stores the packet pointers"),
        Err(_) => assert!(fixed_view(&vm) == before, "ensures: a failed jit_compile changes nothing"),
    }
}

// ------------------------------------------------------------------ EbpfVmRaw / EbpfVmNoData wrappers (C09)
#[kani::proof]
fn raw_wrappers() {
    let p1: [u8; 8] = kani::any();
    let (parent, vk) = any_vm(&p1);
    kani::assume(inv(&parent, vk));
    let mut vm = EbpfVmRaw { parent };
    static mut PKT: [u8; 4] = [0; 4];
    let mem: &'static mut [u8] = unsafe { &mut PKT[..] };
    let mt = tag(mem);
    reset();
    let _ = vm.execute_program(mem);
    let c = unsafe { INTERP_LAST }.unwrap();
    assert!(c.mem == mt && c.mbuff.1 == 0 && c.prog == view(&vm.parent).prog, "ensures: raw VM: packet data = caller's buffer, empty metadata buffer (r1 = packet)");
    let before = view(&vm.parent);
    if vm.jit_compile().is_ok() {
        assert!(matches!(&vm.parent.jit, Some(j) if !j.use_mbuff && !j.update_data_ptr && Some(j.from) == before.prog), "ensures: raw VM compiles with r1 = mem");
        assert!(matches!(&vm.parent.jit, Some(j) if j.helpers_ver == vm.parent.helpers.ver), "ensures: an explicit compile always compiles against the helpers registered now (C10: results depend on the registered helpers)");
    }
    #[cfg(feature = "cranelift")]
    if vm.cranelift_compile().is_ok() {
        assert!(matches!(&vm.parent.cranelift_prog, Some(j) if Some(j.from) == before.prog && j.helpers_ver == vm.parent.helpers.ver), "ensures: raw VM: the Cranelift artefact is compiled from the loaded program against the helpers registered now");
    }
}

#[kani::proof]
fn nodata_wrappers() {
    let p1: [u8; 8] = kani::any();
    let (parent, vk) = any_vm(&p1);
    kani::assume(inv(&parent, vk));
    let mut vm = EbpfVmNoData { parent: EbpfVmRaw { parent } };
    if kani::any() {
        let before = view(&vm.parent.parent);
        if vm.jit_compile().is_ok() {
            assert!(matches!(&vm.parent.parent.jit, Some(j) if Some(j.from) == before.prog && j.helpers_ver == vm.parent.parent.helpers.ver), "ensures: no-data VM: an explicit compile compiles the loaded program against the helpers registered now");
        }
    }
    reset();
    let _ = vm.execute_program();
    let c = unsafe { INTERP_LAST }.unwrap();
    assert!(c.mem.1 == 0 && c.mbuff.1 == 0, "ensures: no-data VM: empty packet and empty metadata buffer (r1 = 0)");
    reset();
    let r = unsafe { vm.execute_program_jit() };
    if let Some(c) = unsafe { NATIVE_LAST } {
        assert!(c.a[2] == 0 && c.a[3] == 0 && c.a[1] == 0, "ensures: compiled code gets a null packet pointer and zero lengths");
    } else {
        assert!(r.is_err(), "ensures: not compiled => error");
    }
}
