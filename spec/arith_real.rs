// `crate::arith` with the real operations (interpreter unit, replay tool).
pub fn mul64(a: u64, b: u64) -> u64 { a.wrapping_mul(b) }
pub fn div64(a: u64, b: u64) -> u64 { a / b }
pub fn rem64(a: u64, b: u64) -> u64 { a % b }
pub fn mul32(a: u32, b: u32) -> u32 { a.wrapping_mul(b) }
pub fn div32(a: u32, b: u32) -> u32 { a / b }
pub fn rem32(a: u32, b: u32) -> u32 { a % b }
