// Executable semantics of exactly the x86-64 instruction forms the rbpf JIT can
// emit - the formal reading of the Intel SDM for those forms.  TRUSTED (listed in the
// evidence).  Anything else decodes to `Unsupported`, which fails the obligation, so a
// change that emits a different (even valid) instruction is not silently accepted.
//
// Written from the SDM, not from src/jit.rs.  Plain Rust, bounded loops only.

use crate::arith;

pub const RAX: usize = 0;
pub const RCX: usize = 1;
pub const RDX: usize = 2;
pub const RBX: usize = 3;
pub const RSP: usize = 4;
pub const RBP: usize = 5;
pub const RSI: usize = 6;
pub const RDI: usize = 7;

#[derive(Clone, Copy, PartialEq, Eq, Debug)]
pub enum XAccess {
    None,
    Load { addr: u64, width: u8 },
    Store { addr: u64, width: u8, val: u64 },
    LockAdd { addr: u64, width: u8, val: u64 },
}

/// How executing the bytes of one eBPF instruction ended.
#[derive(Clone, Copy, PartialEq, Eq, Debug)]
pub enum XEnd {
    /// ran off the end of the emitted bytes: falls through to the next eBPF instruction
    Fallthrough,
    /// took the jmp/jcc whose rel32 field lives at buffer offset `loc` (resolved later by resolve_jumps)
    JumpAt(usize),
    /// `call rel32` whose field lives at `loc` (local call); execution resumes after it on return
    CallAt(usize),
    /// `call rax`
    CallReg,
    Ret,
    /// #DE
    DivideError,
    Unsupported,
}

#[derive(Clone, Copy)]
pub struct XState {
    pub r: [u64; 16],
    /// flags are defined only right after an instruction whose flags this model computes
    pub flags_valid: bool,
    pub zf: bool,
    pub sf: bool,
    pub cf: bool,
    pub of: bool,
    /// native stack: words pushed (top is last); only push/pop/call use it here
    pub stack: [u64; 8],
    pub sp_words: usize,
    /// value the (single) data load of this eBPF instruction returns
    pub load_data: u64,
    pub access: XAccess,
    /// the access before the last one (the JIT prologue of the fixed-metadata VM makes two stores)
    pub prev_access: XAccess,
    pub naccess: u8,
}

fn mask(bits: u8) -> u64 {
    match bits {
        8 => 0xff,
        16 => 0xffff,
        32 => 0xffff_ffff,
        _ => u64::MAX,
    }
}

fn sign_bit(v: u64, bits: u8) -> bool {
    (v >> (bits - 1)) & 1 == 1
}

/// write a general register with x86 sub-register rules
fn wreg(st: &mut XState, n: usize, bits: u8, v: u64) {
    st.r[n] = match bits {
        64 => v,
        32 => v & 0xffff_ffff, // 32-bit writes zero the upper half
        16 => (st.r[n] & !0xffff) | (v & 0xffff),
        _ => (st.r[n] & !0xff) | (v & 0xff),
    };
}

#[derive(Clone, Copy)]
struct ModRm {
    md: u8,
    reg: usize,
    rm: usize,
    disp: i32,
    len: usize,
    ok: bool,
}

fn get(buf: &[u8; 64], i: usize) -> u8 {
    if i < 64 { buf[i] } else { 0 }
}

fn le32(buf: &[u8; 64], i: usize) -> u32 {
    (get(buf, i) as u32) | ((get(buf, i + 1) as u32) << 8) | ((get(buf, i + 2) as u32) << 16) | ((get(buf, i + 3) as u32) << 24)
}

fn modrm(buf: &[u8; 64], i: usize, rex_r: bool, rex_b: bool) -> ModRm {
    let b = get(buf, i);
    let md = b >> 6;
    let reg = ((b >> 3) & 7) as usize + if rex_r { 8 } else { 0 };
    let rm_low = (b & 7) as usize;
    let rm = rm_low + if rex_b { 8 } else { 0 };
    // SIB (rm=100b) and RIP-relative (mod=00, rm=101b) forms are not in the subset
    let mut ok = true;
    if md != 3 && rm_low == 4 {
        ok = false;
    }
    if md == 0 && rm_low == 5 {
        ok = false;
    }
    let (disp, len) = match md {
        1 => (get(buf, i + 1) as i8 as i32, 2),
        2 => (le32(buf, i + 1) as i32, 5),
        _ => (0, 1),
    };
    ModRm { md, reg, rm, disp, len, ok }
}

fn ea(st: &XState, m: &ModRm) -> u64 {
    st.r[m.rm].wrapping_add(m.disp as i64 as u64)
}

fn set_logic_flags(st: &mut XState, res: u64, bits: u8) {
    st.flags_valid = true;
    st.zf = res & mask(bits) == 0;
    st.sf = sign_bit(res, bits);
    st.cf = false;
    st.of = false;
}

fn set_sub_flags(st: &mut XState, a: u64, b: u64, bits: u8) {
    let (a, b) = (a & mask(bits), b & mask(bits));
    let res = a.wrapping_sub(b) & mask(bits);
    st.flags_valid = true;
    st.zf = res == 0;
    st.sf = sign_bit(res, bits);
    st.cf = a < b;
    st.of = sign_bit(a, bits) != sign_bit(b, bits) && sign_bit(res, bits) != sign_bit(a, bits);
}

fn cond(st: &XState, cc: u8) -> Option<bool> {
    if !st.flags_valid {
        return None;
    }
    Some(match cc {
        0x2 => st.cf,
        0x3 => !st.cf,
        0x4 => st.zf,
        0x5 => !st.zf,
        0x6 => st.cf || st.zf,
        0x7 => !st.cf && !st.zf,
        0xc => st.sf != st.of,
        0xd => st.sf == st.of,
        0xe => st.zf || st.sf != st.of,
        0xf => !st.zf && st.sf == st.of,
        _ => return None,
    })
}

fn data_load(st: &mut XState, addr: u64, width: u8) -> u64 {
    st.prev_access = st.access;
    st.access = XAccess::Load { addr, width };
    if st.naccess < 250 {
        st.naccess += 1;
    }
    st.load_data & mask(width * 8)
}

fn data_store(st: &mut XState, addr: u64, width: u8, val: u64) {
    st.prev_access = st.access;
    st.access = XAccess::Store { addr, width, val: val & mask(width * 8) };
    if st.naccess < 250 {
        st.naccess += 1;
    }
}

/// Execute ONE instruction at buf[ip..]; returns (next ip, end-of-run reason if any).
pub fn exec_one(st: &mut XState, buf: &[u8; 64], ip: usize) -> (usize, Option<XEnd>) {
    let mut i = ip;
    let mut lock = false;
    let mut op16 = false;
    if get(buf, i) == 0xf0 {
        lock = true;
        i += 1;
    }
    if get(buf, i) == 0x66 {
        op16 = true;
        i += 1;
    }
    let mut rex = 0u8;
    if get(buf, i) & 0xf0 == 0x40 {
        rex = get(buf, i);
        i += 1;
    }
    let rex_w = rex & 8 != 0;
    let rex_r = rex & 4 != 0;
    let rex_x = rex & 2 != 0;
    let rex_b = rex & 1 != 0;
    if rex_x {
        return (i, Some(XEnd::Unsupported));
    }
    let bits: u8 = if rex_w { 64 } else if op16 { 16 } else { 32 };
    let opc = get(buf, i);
    i += 1;
    let bad = (i, Some(XEnd::Unsupported));
    if lock && opc != 0x01 {
        return bad;
    }
    match opc {
        0x50..=0x57 => {
            if rex_w || op16 { return bad; }
            let r = (opc & 7) as usize + if rex_b { 8 } else { 0 };
            if st.sp_words >= 8 { return bad; }
            st.stack[st.sp_words] = st.r[r];
            st.sp_words += 1;
            st.r[RSP] = st.r[RSP].wrapping_sub(8);
            (i, None)
        }
        0x58..=0x5f => {
            if rex_w || op16 { return bad; }
            let r = (opc & 7) as usize + if rex_b { 8 } else { 0 };
            if st.sp_words == 0 { return bad; }
            st.sp_words -= 1;
            st.r[r] = st.stack[st.sp_words];
            st.r[RSP] = st.r[RSP].wrapping_add(8);
            (i, None)
        }
        0x01 | 0x09 | 0x21 | 0x29 | 0x31 | 0x39 | 0x85 | 0x89 => {
            // op r/m, r
            let m = modrm(buf, i, rex_r, rex_b);
            if !m.ok { return bad; }
            i += m.len;
            let s = st.r[m.reg];
            if m.md == 3 {
                if lock { return bad; }
                let d = st.r[m.rm];
                match opc {
                    0x89 => wreg(st, m.rm, bits, s),
                    0x39 => set_sub_flags(st, d, s, bits),
                    0x85 => set_logic_flags(st, d & s, bits),
                    _ => {
                        let res = match opc {
                            0x01 => d.wrapping_add(s),
                            0x09 => d | s,
                            0x21 => d & s,
                            0x29 => d.wrapping_sub(s),
                            _ => d ^ s,
                        };
                        wreg(st, m.rm, bits, res);
                        if opc == 0x29 { set_sub_flags(st, d, s, bits); }
                        else if opc == 0x01 { st.flags_valid = false; }
                        else { set_logic_flags(st, res, bits); }
                    }
                }
            } else {
                let addr = ea(st, &m);
                let width = bits / 8;
                if opc == 0x89 && !lock {
                    data_store(st, addr, width, s);
                } else if opc == 0x01 && lock {
                    if op16 { return bad; }
                    st.prev_access = st.access;
                    st.access = XAccess::LockAdd { addr, width, val: s & mask(bits) };
                    if st.naccess < 250 { st.naccess += 1; }
                    st.flags_valid = false;
                } else {
                    return bad;
                }
            }
            (i, None)
        }
        0x88 => {
            // mov r/m8, r8 (with a REX prefix the byte registers are the low bytes of all 16 registers;
            // without REX, encodings 4..7 mean ah/ch/dh/bh - not in the subset)
            let m = modrm(buf, i, rex_r, rex_b);
            if !m.ok || m.md == 3 || op16 { return bad; }
            if rex == 0 && m.reg >= 4 { return bad; }
            i += m.len;
            let addr = ea(st, &m);
            data_store(st, addr, 1, st.r[m.reg]);
            (i, None)
        }
        0x8b => {
            let m = modrm(buf, i, rex_r, rex_b);
            if !m.ok || m.md == 3 || op16 { return bad; }
            i += m.len;
            let addr = ea(st, &m);
            let v = data_load(st, addr, bits / 8);
            wreg(st, m.reg, bits, v);
            (i, None)
        }
        0xc6 | 0xc7 => {
            let m = modrm(buf, i, rex_r, rex_b);
            if !m.ok || m.reg & 7 != 0 { return bad; }
            i += m.len;
            let (imm, ilen, wbits): (u64, usize, u8) = if opc == 0xc6 {
                (get(buf, i) as u64, 1, 8)
            } else if op16 {
                ((get(buf, i) as u64) | ((get(buf, i + 1) as u64) << 8), 2, 16)
            } else {
                // imm32, sign-extended to 64 bits under REX.W
                (le32(buf, i) as i32 as i64 as u64, 4, bits)
            };
            i += ilen;
            if m.md == 3 {
                if opc == 0xc6 { return bad; }
                wreg(st, m.rm, wbits, imm);
            } else {
                let addr = ea(st, &m);
                data_store(st, addr, wbits / 8, imm);
            }
            (i, None)
        }
        0xb8..=0xbf => {
            if !rex_w { return bad; }
            let r = (opc & 7) as usize + if rex_b { 8 } else { 0 };
            let v = (le32(buf, i) as u64) | ((le32(buf, i + 4) as u64) << 32);
            st.r[r] = v;
            (i + 8, None)
        }
        0x81 => {
            let m = modrm(buf, i, rex_r, rex_b);
            if !m.ok || m.md != 3 || op16 { return bad; }
            i += m.len;
            let imm = le32(buf, i) as i32 as i64 as u64;
            i += 4;
            let d = st.r[m.rm];
            match m.reg & 7 {
                7 => set_sub_flags(st, d, imm, bits),
                k => {
                    let res = match k {
                        0 => d.wrapping_add(imm),
                        1 => d | imm,
                        4 => d & imm,
                        5 => d.wrapping_sub(imm),
                        6 => d ^ imm,
                        _ => return bad,
                    };
                    wreg(st, m.rm, bits, res);
                    st.flags_valid = false;
                }
            }
            (i, None)
        }
        0xc1 | 0xd3 => {
            let m = modrm(buf, i, rex_r, rex_b);
            if !m.ok || m.md != 3 { return bad; }
            i += m.len;
            let count_raw = if opc == 0xc1 { let c = get(buf, i); i += 1; c } else { st.r[RCX] as u8 };
            // the count is masked to 5 bits (6 with REX.W)
            let count = (count_raw & if bits == 64 { 63 } else { 31 }) as u32;
            let d = st.r[m.rm] & mask(bits);
            let res = match m.reg & 7 {
                4 => if bits == 64 { d << count } else { (d << count) & mask(bits) },
                5 => d >> count,
                7 => {
                    if bits == 64 { ((d as i64) >> count) as u64 }
                    else if bits == 32 { ((d as u32 as i32) >> count) as u32 as u64 }
                    else { return bad; }
                }
                0 => {
                    // rol: only the 16-bit byte rotation `66 c1 /0 08` is in the subset
                    if !(op16 && count == 8) { return bad; }
                    ((d << 8) | (d >> 8)) & 0xffff
                }
                _ => return bad,
            };
            if op16 && m.reg & 7 != 0 { return bad; }
            wreg(st, m.rm, bits, res);
            st.flags_valid = false;
            (i, None)
        }
        0xf7 => {
            let m = modrm(buf, i, rex_r, rex_b);
            if !m.ok || m.md != 3 || op16 { return bad; }
            i += m.len;
            let d = st.r[m.rm] & mask(bits);
            match m.reg & 7 {
                0 => {
                    let imm = le32(buf, i) as i32 as i64 as u64;
                    i += 4;
                    set_logic_flags(st, d & imm, bits);
                }
                3 => {
                    wreg(st, m.rm, bits, 0u64.wrapping_sub(d));
                    st.flags_valid = false;
                }
                4 => {
                    // mul: rdx:rax = rax * r/m ; only the low half is ever consumed by the JIT, the
                    // high half goes to rdx (modelled as an unspecified value: sound, the JIT restores rdx)
                    let a = st.r[RAX] & mask(bits);
                    let lo = if bits == 64 { arith::mul64(a, d) } else { arith::mul32(a as u32, d as u32) as u64 };
                    wreg(st, RAX, bits, lo);
                    let hi: u64 = arith::unspecified();
                    wreg(st, RDX, bits, hi);
                    st.flags_valid = false;
                }
                6 => {
                    // div: rdx:rax / r/m.  With rdx == 0 this is a plain division; other dividends are
                    // outside the subset.
                    if st.r[RDX] & mask(bits) != 0 { return bad; }
                    if d == 0 { return (i, Some(XEnd::DivideError)); }
                    let a = st.r[RAX] & mask(bits);
                    let (q, r) = if bits == 64 { (arith::div64(a, d), arith::rem64(a, d)) }
                                 else { (arith::div32(a as u32, d as u32) as u64, arith::rem32(a as u32, d as u32) as u64) };
                    wreg(st, RAX, bits, q);
                    wreg(st, RDX, bits, r);
                    st.flags_valid = false;
                }
                _ => return bad,
            }
            (i, None)
        }
        0x0f => {
            let o2 = get(buf, i);
            i += 1;
            match o2 {
                0xb6 | 0xb7 => {
                    if rex_w || op16 { return bad; }
                    let m = modrm(buf, i, rex_r, rex_b);
                    if !m.ok || m.md == 3 { return bad; }
                    i += m.len;
                    let addr = ea(st, &m);
                    let v = data_load(st, addr, if o2 == 0xb6 { 1 } else { 2 });
                    wreg(st, m.reg, 32, v);
                    (i, None)
                }
                0xc8..=0xcf => {
                    if op16 { return bad; }
                    let r = (o2 & 7) as usize + if rex_b { 8 } else { 0 };
                    let v = if rex_w { st.r[r].swap_bytes() } else { (st.r[r] as u32).swap_bytes() as u64 };
                    wreg(st, r, bits, v);
                    (i, None)
                }
                0x80..=0x8f => {
                    if rex != 0 || op16 { return bad; }
                    let loc = i;
                    let rel = le32(buf, i) as i32;
                    i += 4;
                    match cond(st, o2 & 0xf) {
                        None => bad,
                        Some(false) => (i, None),
                        Some(true) => {
                            if rel == 0 { (i, Some(XEnd::JumpAt(loc))) } else { ((i as i64 + rel as i64) as usize, None) }
                        }
                    }
                }
                _ => bad,
            }
        }
        0xe9 => {
            if rex != 0 || op16 { return bad; }
            let loc = i;
            let rel = le32(buf, i) as i32;
            i += 4;
            if rel == 0 { (i, Some(XEnd::JumpAt(loc))) } else { ((i as i64 + rel as i64) as usize, None) }
        }
        0xe8 => {
            if rex != 0 || op16 { return bad; }
            (i + 4, Some(XEnd::CallAt(i)))
        }
        0xff => {
            if get(buf, i) != 0xd0 || rex != 0 || op16 { return bad; }
            (i + 1, Some(XEnd::CallReg))
        }
        0xc3 => {
            if rex != 0 || op16 { return bad; }
            (i, Some(XEnd::Ret))
        }
        _ => bad,
    }
}

/// Run the bytes buf[start..end) (the code of one eBPF instruction), at most `fuel` instructions.
pub fn run(st: &mut XState, buf: &[u8; 64], start: usize, end: usize, fuel: usize) -> (XEnd, usize) {
    let mut ip = start;
    let mut k = 0;
    while k < fuel {
        if ip == end {
            return (XEnd::Fallthrough, ip);
        }
        if ip > end {
            return (XEnd::Unsupported, ip);
        }
        let (nip, e) = exec_one(st, buf, ip);
        ip = nip;
        if let Some(e) = e {
            return (e, ip);
        }
        k += 1;
    }
    if ip == end { (XEnd::Fallthrough, ip) } else { (XEnd::Unsupported, ip) }
}
