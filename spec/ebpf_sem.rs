// Executable small-step semantics of one eBPF instruction, written from the
// statements of C01/C02/C05/C07/C08/C18 in /verif/properties.jsonl - NOT from
// the code in /repo.  Plain loop-free Rust so that the same text is
//   (a) the right-hand side of Kani `ensures` clauses,
//   (b) the reference the replay tool runs against the real crate.
// Nothing in this file is extracted from /repo.
//
// Multiplication / division go through `crate::arith` so that a harness crate can
// choose between the real operations (interpreter unit, replay) and uninterpreted
// functions shared with the x86 semantics (JIT unit: CBMC does not decide the
// equivalence of two multiplier/divider circuits, but does decide operand equality).
use crate::arith;

pub const S_MAX_DEPTH: usize = 8;
pub const S_STACK_SIZE: u64 = 512;
pub const S_DEFAULT_FRAME: u16 = 256;
pub const S_MAX_INSNS: usize = 1_000_000;

#[derive(Clone, Copy, PartialEq, Eq, Debug)]
pub struct SInsn {
    pub opc: u8,
    pub dst: u8,
    pub src: u8,
    pub off: i16,
    pub imm: i32,
}

#[derive(Clone, Copy, PartialEq, Eq, Debug)]
pub struct SFrame {
    pub ret: usize,
    pub saved: [u64; 4],
    /// frame size in bytes of the function running at this depth
    pub usage: u16,
}

#[derive(Clone, Copy, PartialEq, Eq, Debug)]
pub struct SState {
    pub reg: [u64; 11],
    pub pc: usize,
    pub depth: usize,
    pub frames: [SFrame; S_MAX_DEPTH],
}

#[derive(Clone, Copy, PartialEq, Eq, Debug)]
pub enum SAccess {
    None,
    Load { addr: u64, width: u8 },
    Store { addr: u64, width: u8, val: u64 },
    AtomicAdd { addr: u64, width: u8, val: u64 },
}

/// One contiguous region [base, base+len); Rust slices never wrap.
#[derive(Clone, Copy, PartialEq, Eq, Debug)]
pub struct SRegion {
    pub base: u64,
    pub len: u64,
}

#[derive(Clone, Copy, PartialEq, Eq, Debug)]
pub struct SLayout {
    pub mbuff: SRegion,
    pub mem: SRegion,
    pub stack: SRegion,
    /// one arbitrary member of the registered allowed ranges (start, end), if any
    pub allowed: Option<(u64, u64)>,
}

/// What the environment answers during this one step.
#[derive(Clone, Copy, PartialEq, Eq, Debug)]
pub struct SOracle {
    /// the 8 bytes found at the accessed address (little endian)
    pub load_data: u64,
    /// is a helper registered under `insn.imm as u32`
    pub helper_present: bool,
    pub helper_ret: u64,
    /// frame size registered for a function starting at `pc` (None: pc is not a function entry)
    pub entry_usage: Option<u16>,
    /// imm of the slot following the current one (used by lddw only)
    pub next_imm: i32,
}

#[derive(Clone, Copy, PartialEq, Eq, Debug)]
pub enum SKind {
    Continue,
    Exit(u64),
    Err,
}

#[derive(Clone, Copy, PartialEq, Eq, Debug)]
pub struct SOutcome {
    pub kind: SKind,
    pub post: SState,
    pub access: SAccess,
    pub helper_args: Option<[u64; 5]>,
}

// ---------------------------------------------------------------- opcodes
// Numeric values from the eBPF ISA (class | source | operation).
pub const CLS_LD: u8 = 0;
pub const CLS_LDX: u8 = 1;
pub const CLS_ST: u8 = 2;
pub const CLS_STX: u8 = 3;
pub const CLS_ALU: u8 = 4;
pub const CLS_JMP: u8 = 5;
pub const CLS_JMP32: u8 = 6;
pub const CLS_ALU64: u8 = 7;

pub const OP_LDDW: u8 = 0x18;
pub const OP_CALL: u8 = 0x85;
pub const OP_TAIL_CALL: u8 = 0x8d;
pub const OP_EXIT: u8 = 0x95;
pub const OP_JA: u8 = 0x05;
pub const OP_XADD_W: u8 = 0xc3;
pub const OP_XADD_DW: u8 = 0xdb;
pub const OP_LE: u8 = 0xd4;
pub const OP_BE: u8 = 0xdc;
pub const OP_NEG32: u8 = 0x84;
pub const OP_NEG64: u8 = 0x87;

pub fn width_of(opc: u8) -> u8 {
    match opc & 0x18 {
        0x00 => 4,
        0x08 => 2,
        0x10 => 1,
        _ => 8,
    }
}

pub fn mask_of(width: u8) -> u64 {
    match width {
        1 => 0xff,
        2 => 0xffff,
        4 => 0xffff_ffff,
        _ => u64::MAX,
    }
}

/// Is `opc` one of the opcodes the ISA subset of rbpf supports?
pub fn supported(opc: u8) -> bool {
    let cls = opc & 7;
    let op = opc & 0xf0;
    let x = opc & 0x08 != 0;
    match cls {
        CLS_LD => matches!(opc, 0x18 | 0x20 | 0x28 | 0x30 | 0x38 | 0x40 | 0x48 | 0x50 | 0x58),
        CLS_LDX | CLS_ST => opc & 0xe0 == 0x60,
        CLS_STX => opc & 0xe0 == 0x60 || opc == OP_XADD_W || opc == OP_XADD_DW,
        CLS_ALU | CLS_ALU64 => {
            if op == 0x80 {
                !x // neg has no register form
            } else if op == 0xd0 {
                cls == CLS_ALU // le / be
            } else {
                op <= 0xc0
            }
        }
        CLS_JMP => {
            if op == 0x00 {
                !x // ja
            } else if op == 0x80 {
                true // call (0x85), tail call (0x8d) - the latter is refused at run time
            } else if op == 0x90 {
                !x // exit
            } else {
                op <= 0xd0
            }
        }
        _ /* JMP32 */ => op != 0x00 && op != 0x80 && op != 0x90 && op <= 0xd0,
    }
}

fn inside(addr: u64, width: u8, r: SRegion) -> bool {
    // no wrap-around anywhere: computed on u128-free arithmetic
    match addr.checked_add(width as u64) {
        None => false,
        Some(end) => r.base <= addr && end <= r.base.wrapping_add(r.len) && r.base.checked_add(r.len).is_some(),
    }
}

/// C02: an access is carried out iff all of its bytes lie inside the packet
/// data, the metadata buffer, the stack or a registered range.
pub fn access_allowed(addr: u64, width: u8, l: &SLayout) -> bool {
    if inside(addr, width, l.mbuff) || inside(addr, width, l.mem) || inside(addr, width, l.stack) {
        return true;
    }
    match l.allowed {
        Some((s, e)) => match addr.checked_add(width as u64) {
            Some(end) => s <= addr && end <= e,
            None => false,
        },
        None => false,
    }
}

fn sext(imm: i32) -> u64 {
    imm as i64 as u64
}

/// 64-bit ALU result, or None when the opcode is not an ALU64 binary op.
pub fn alu64(op: u8, d: u64, s: u64) -> u64 {
    match op {
        0x00 => d.wrapping_add(s),
        0x10 => d.wrapping_sub(s),
        0x20 => arith::mul64(d, s),
        0x30 => if s == 0 { 0 } else { arith::div64(d, s) },
        0x40 => d | s,
        0x50 => d & s,
        0x60 => d << (s & 63),
        0x70 => d >> (s & 63),
        0x80 => 0u64.wrapping_sub(d),
        0x90 => if s == 0 { d } else { arith::rem64(d, s) },
        0xa0 => d ^ s,
        0xb0 => s,
        _ /* 0xc0 */ => ((d as i64) >> (s & 63)) as u64,
    }
}

/// 32-bit ALU: operates on the low halves, result zero-extended.  Modulo by
/// zero "leaves the destination" (the whole 64-bit register).
pub fn alu32(op: u8, d64: u64, s64: u64) -> u64 {
    let d = d64 as u32;
    let s = s64 as u32;
    let r: u32 = match op {
        0x00 => d.wrapping_add(s),
        0x10 => d.wrapping_sub(s),
        0x20 => arith::mul32(d, s),
        0x30 => if s == 0 { 0 } else { arith::div32(d, s) },
        0x40 => d | s,
        0x50 => d & s,
        0x60 => d << (s & 31),
        0x70 => d >> (s & 31),
        0x80 => 0u32.wrapping_sub(d),
        0x90 => if s == 0 { return d64 } else { arith::rem32(d, s) },
        0xa0 => d ^ s,
        0xb0 => s,
        _ /* 0xc0 */ => ((d as i32) >> (s & 31)) as u32,
    };
    r as u64
}

pub fn bswap(width: i32, d: u64) -> u64 {
    match width {
        16 => ((d as u16).swap_bytes()) as u64,
        32 => ((d as u32).swap_bytes()) as u64,
        _ => d.swap_bytes(),
    }
}

pub fn trunc(width: i32, d: u64) -> u64 {
    match width {
        16 => d & 0xffff,
        32 => d & 0xffff_ffff,
        _ => d,
    }
}

pub fn jmp_cond(op: u8, d: u64, s: u64) -> bool {
    match op {
        0x10 => d == s,
        0x20 => d > s,
        0x30 => d >= s,
        0x40 => d & s != 0,
        0x50 => d != s,
        0x60 => (d as i64) > (s as i64),
        0x70 => (d as i64) >= (s as i64),
        0xa0 => d < s,
        0xb0 => d <= s,
        0xc0 => (d as i64) < (s as i64),
        _ /* 0xd0 */ => (d as i64) <= (s as i64),
    }
}

pub fn jmp32_cond(op: u8, d64: u64, s64: u64) -> bool {
    let d = d64 as u32;
    let s = s64 as u32;
    match op {
        0x10 => d == s,
        0x20 => d > s,
        0x30 => d >= s,
        0x40 => d & s != 0,
        0x50 => d != s,
        0x60 => (d as i32) > (s as i32),
        0x70 => (d as i32) >= (s as i32),
        0xa0 => d < s,
        0xb0 => d <= s,
        0xc0 => (d as i32) < (s as i32),
        _ /* 0xd0 */ => (d as i32) <= (s as i32),
    }
}

fn err(pre: &SState) -> SOutcome {
    SOutcome { kind: SKind::Err, post: *pre, access: SAccess::None, helper_args: None }
}

/// One step.  Preconditions (facts the verifier establishes, C06): the opcode
/// is supported, dst <= 10, src <= 10.  `pre.pc` is the index of `insn`.
pub fn spec_step(pre: &SState, insn: SInsn, l: &SLayout, o: &SOracle) -> SOutcome {
    let mut st = *pre;
    // frame-size bookkeeping: entering a function registers its frame size at this depth
    if st.depth < S_MAX_DEPTH {
        if let Some(u) = o.entry_usage {
            st.frames[st.depth].usage = u;
        }
    }
    let base = st; // state an error outcome reports (irrelevant to callers)
    let dst = insn.dst as usize;
    let src = insn.src as usize;
    let cls = insn.opc & 7;
    let op = insn.opc & 0xf0;
    let is_x = insn.opc & 0x08 != 0;
    let next = st.pc + 1;
    let mut out = SOutcome { kind: SKind::Continue, post: st, access: SAccess::None, helper_args: None };
    out.post.pc = next;
    let d = st.reg[dst];
    let s_reg = st.reg[src];
    let s = if is_x { s_reg } else { sext(insn.imm) };

    match cls {
        CLS_ALU64 => {
            out.post.reg[dst] = alu64(op, d, s);
        }
        CLS_ALU => {
            if op == 0xd0 {
                out.post.reg[dst] = if is_x { bswap(insn.imm, d) } else { trunc(insn.imm, d) };
            } else {
                out.post.reg[dst] = alu32(op, d, s);
            }
        }
        CLS_JMP | CLS_JMP32 if insn.opc != OP_CALL && insn.opc != OP_EXIT && insn.opc != OP_TAIL_CALL => {
            let taken = if insn.opc == OP_JA {
                true
            } else if cls == CLS_JMP {
                jmp_cond(op, d, s)
            } else {
                jmp32_cond(op, d, s)
            };
            if taken {
                // mathematical pc + 1 + off; the verifier guarantees it is in [0, n)
                out.post.pc = (next as i64 + insn.off as i64) as usize;
            }
        }
        CLS_JMP => {
            if insn.opc == OP_EXIT {
                if st.depth == 0 {
                    out.kind = SKind::Exit(st.reg[0]);
                } else {
                    let f = st.frames[st.depth - 1];
                    out.post.depth = st.depth - 1;
                    out.post.reg[6] = f.saved[0];
                    out.post.reg[7] = f.saved[1];
                    out.post.reg[8] = f.saved[2];
                    out.post.reg[9] = f.saved[3];
                    out.post.pc = f.ret;
                    out.post.reg[10] = st.reg[10].wrapping_add(f.usage as u64);
                }
            } else if insn.opc == OP_TAIL_CALL {
                return err(&base);
            } else if insn.src == 0 {
                if !o.helper_present {
                    return err(&base);
                }
                out.helper_args = Some([st.reg[1], st.reg[2], st.reg[3], st.reg[4], st.reg[5]]);
                out.post.reg[0] = o.helper_ret;
            } else if insn.src == 1 {
                if st.depth >= S_MAX_DEPTH {
                    return err(&base);
                }
                let f = &mut out.post.frames[st.depth];
                f.saved = [st.reg[6], st.reg[7], st.reg[8], st.reg[9]];
                f.ret = next;
                let usage = f.usage;
                out.post.reg[10] = st.reg[10].wrapping_sub(usage as u64);
                out.post.depth = st.depth + 1;
                out.post.pc = (next as i64 + insn.imm as i64) as usize;
            } else {
                return err(&base);
            }
        }
        CLS_LD => {
            if insn.opc == OP_LDDW {
                out.post.reg[dst] = (insn.imm as u32 as u64) | ((o.next_imm as u32 as u64) << 32);
                out.post.pc = st.pc + 2;
            } else {
                // ld_abs / ld_ind address the packet data
                let w = width_of(insn.opc);
                let mut addr = l.mem.base.wrapping_add(insn.imm as u32 as u64);
                if insn.opc & 0xe0 == 0x40 {
                    addr = addr.wrapping_add(s_reg);
                }
                if !access_allowed(addr, w, l) {
                    return err(&base);
                }
                out.access = SAccess::Load { addr, width: w };
                out.post.reg[0] = o.load_data & mask_of(w);
            }
        }
        CLS_LDX => {
            let w = width_of(insn.opc);
            let addr = s_reg.wrapping_add(insn.off as i64 as u64);
            if !access_allowed(addr, w, l) {
                return err(&base);
            }
            out.access = SAccess::Load { addr, width: w };
            out.post.reg[dst] = o.load_data & mask_of(w);
        }
        CLS_ST => {
            let w = width_of(insn.opc);
            let addr = d.wrapping_add(insn.off as i64 as u64);
            if !access_allowed(addr, w, l) {
                return err(&base);
            }
            out.access = SAccess::Store { addr, width: w, val: sext(insn.imm) & mask_of(w) };
        }
        _ /* CLS_STX */ => {
            let w = width_of(insn.opc);
            let addr = d.wrapping_add(insn.off as i64 as u64);
            if !access_allowed(addr, w, l) {
                return err(&base);
            }
            if insn.opc == OP_XADD_W || insn.opc == OP_XADD_DW {
                if addr % (w as u64) != 0 {
                    return err(&base);
                }
                out.access = SAccess::AtomicAdd { addr, width: w, val: s_reg & mask_of(w) };
            } else {
                out.access = SAccess::Store { addr, width: w, val: s_reg & mask_of(w) };
            }
        }
    }
    out
}

/// Element-wise comparison (array `==` calls memcmp, which needs unwinding under CBMC).
pub fn regs_eq(a: &[u64; 11], b: &[u64; 11]) -> bool {
    a[0] == b[0] && a[1] == b[1] && a[2] == b[2] && a[3] == b[3] && a[4] == b[4] && a[5] == b[5]
        && a[6] == b[6] && a[7] == b[7] && a[8] == b[8] && a[9] == b[9] && a[10] == b[10]
}

pub fn regs_eq_except(a: &[u64; 11], b: &[u64; 11], x: usize) -> bool {
    (x == 0 || a[0] == b[0]) && (x == 1 || a[1] == b[1]) && (x == 2 || a[2] == b[2]) && (x == 3 || a[3] == b[3])
        && (x == 4 || a[4] == b[4]) && (x == 5 || a[5] == b[5]) && (x == 6 || a[6] == b[6]) && (x == 7 || a[7] == b[7])
        && (x == 8 || a[8] == b[8]) && (x == 9 || a[9] == b[9]) && (x == 10 || a[10] == b[10])
}

pub fn frame_eq(a: &SFrame, b: &SFrame) -> bool {
    a.ret == b.ret && a.usage == b.usage && a.saved[0] == b.saved[0] && a.saved[1] == b.saved[1]
        && a.saved[2] == b.saved[2] && a.saved[3] == b.saved[3]
}

pub fn frames_eq(a: &[SFrame; 8], b: &[SFrame; 8]) -> bool {
    frame_eq(&a[0], &b[0]) && frame_eq(&a[1], &b[1]) && frame_eq(&a[2], &b[2]) && frame_eq(&a[3], &b[3])
        && frame_eq(&a[4], &b[4]) && frame_eq(&a[5], &b[5]) && frame_eq(&a[6], &b[6]) && frame_eq(&a[7], &b[7])
}

pub fn state_eq(a: &SState, b: &SState) -> bool {
    regs_eq(&a.reg, &b.reg) && a.pc == b.pc && a.depth == b.depth && frames_eq(&a.frames, &b.frames)
}

// ---------------------------------------------------------------- verifier facts
pub fn is_store_class(opc: u8) -> bool {
    let c = opc & 7;
    c == CLS_ST || c == CLS_STX
}

pub fn is_jump(opc: u8) -> bool {
    let c = opc & 7;
    (c == CLS_JMP || c == CLS_JMP32) && opc != OP_CALL && opc != OP_EXIT && opc != OP_TAIL_CALL
}


/// The conjuncts of `wf_insn` (spec/wf.rs, established by verifier::check, C06)
/// instantiated at the current instruction.
pub fn wf_facts(i: &SInsn, pc: usize, n: usize) -> bool {
    if !(n >= 1 && n <= S_MAX_INSNS && pc < n) {
        return false;
    }
    let tgt_off = pc as i64 + 1 + i.off as i64;
    let tgt_imm = pc as i64 + 1 + i.imm as i64;
    true
        // (a tail call is refused by the verifier; the arm is still checked: it must return Err)
        && supported(i.opc)
        && i.src <= 10
        && (i.dst <= 9 || (i.dst == 10 && is_store_class(i.opc)))
        && (i.opc != OP_LDDW || pc + 2 < n)
        && (!is_jump(i.opc) || (i.off != -1 && 0 <= tgt_off && tgt_off < n as i64))
        && (i.opc != OP_CALL || i.src <= 1)
        && (!(i.opc == OP_CALL && i.src == 1) || (0 <= tgt_imm && tgt_imm < n as i64))
        && (!(i.opc == OP_LE || i.opc == OP_BE) || i.imm == 16 || i.imm == 32 || i.imm == 64)
        && (!(i.opc == OP_XADD_W || i.opc == OP_XADD_DW) || i.imm == 0)
        // execution cannot run past the last instruction: a non-jump is never last
        && (pc + 1 < n || i.opc == OP_EXIT || i.opc == OP_JA)
}


/// WITNESS MODE ONLY (never part of a proof): a "small world" in which a counterexample can be re-based on
/// real buffers - short regions at page-aligned, well separated addresses far from the ends of the address
/// space.  Counterexample extraction first asks for a witness under this assumption and falls back to an
/// unconstrained one.
pub fn small_world_regions(mem: (u64, u64), mbuff: (u64, u64), stack: (u64, u64)) -> bool {
    let ok = |b: u64, l: u64| l <= 64 && b % 4096 == 0 && b >= 0x10000 && b < (1u64 << 40);
    let far = |a: u64, b: u64| (if a > b { a - b } else { b - a }) >= 0x10000;
    ok(mem.0, mem.1) && ok(mbuff.0, mbuff.1) && stack.0 % 4096 == 0 && stack.0 >= 0x10000 && stack.0 < (1u64 << 40)
        && far(mem.0, mbuff.0) && far(mem.0, stack.0) && far(mbuff.0, stack.0)
}
