// `crate::arith` as UNINTERPRETED functions (Ackermann expansion by hand): every call
// returns an arbitrary value, except that equal arguments give equal results.  A proof
// that goes through with these holds for every interpretation, in particular for the
// real wrapping product / unsigned quotient / remainder that both the eBPF ISA and the
// x86 `mul` / `div` instructions denote (that identification is part of the trusted x86
// reading).  Multiplication is made symmetric (arguments sorted) since it commutes.
pub struct Uf { pub n: usize, pub a: [u64; 4], pub b: [u64; 4], pub r: [u64; 4] }
impl Uf {
    pub const fn new() -> Uf { Uf { n: 0, a: [0; 4], b: [0; 4], r: [0; 4] } }
    pub fn call(&mut self, a: u64, b: u64) -> u64 {
        let mut k = 0;
        while k < 4 {
            if k < self.n && self.a[k] == a && self.b[k] == b { return self.r[k]; }
            k += 1;
        }
        let r: u64 = kani::any();
        if self.n < 4 { self.a[self.n] = a; self.b[self.n] = b; self.r[self.n] = r; self.n += 1; }
        r
    }
}
pub static mut MUL64: Uf = Uf::new();
pub static mut DIV64: Uf = Uf::new();
pub static mut REM64: Uf = Uf::new();
pub static mut MUL32: Uf = Uf::new();
pub static mut DIV32: Uf = Uf::new();
pub static mut REM32: Uf = Uf::new();
fn sorted(a: u64, b: u64) -> (u64, u64) { if a <= b { (a, b) } else { (b, a) } }
// the two facts about products the JIT relies on are kept: x*0 = 0 and x*1 = x
pub fn mul64(a: u64, b: u64) -> u64 { let (x, y) = sorted(a, b); if x == 0 { 0 } else if x == 1 { y } else { unsafe { MUL64.call(x, y) } } }
pub fn div64(a: u64, b: u64) -> u64 { unsafe { DIV64.call(a, b) } }
pub fn rem64(a: u64, b: u64) -> u64 { unsafe { REM64.call(a, b) } }
pub fn mul32(a: u32, b: u32) -> u32 { let (x, y) = sorted(a as u64, b as u64); if x == 0 { 0 } else if x == 1 { y as u32 } else { unsafe { MUL32.call(x, y) as u32 } } }
pub fn div32(a: u32, b: u32) -> u32 { unsafe { DIV32.call(a as u64, b as u64) as u32 } }
pub fn rem32(a: u32, b: u32) -> u32 { unsafe { REM32.call(a as u64, b as u64) as u32 } }
pub fn unspecified() -> u64 { kani::any() }
pub fn reset() { unsafe { MUL64 = Uf::new(); DIV64 = Uf::new(); REM64 = Uf::new(); MUL32 = Uf::new(); DIV32 = Uf::new(); REM32 = Uf::new(); } }
