// Mnemonic and operand rendering prescribed by the documented assembly syntax
// (README.md "assembler" section and the doc comments of src/assembler.rs), per
// opcode.  Written from the documentation, not from src/disassembler.rs.
// Plain loop-free Rust (used in Kani `ensures`).

#[derive(Clone, Copy, PartialEq, Eq, Debug)]
pub enum Piece {
    /// literal text
    Lit(&'static str),
    /// a number printed in decimal
    Dec(i128),
    /// a number printed as `{:#x}`; `bits` is the width of the printed type
    /// (only matters for negative values: two's complement of that width)
    Hex(i128, u8),
    None,
}

#[derive(Clone, Copy, Debug)]
pub struct Rendered {
    pub name: &'static str,
    pub pieces: [Piece; 10],
}

pub fn mnemonic(opc: u8) -> &'static str {
    let cls = opc & 7;
    let op = opc & 0xf0;
    match cls {
        0 => match opc {
            0x18 => "lddw",
            0x20 => "ldabsw", 0x28 => "ldabsh", 0x30 => "ldabsb", 0x38 => "ldabsdw",
            0x40 => "ldindw", 0x48 => "ldindh", 0x50 => "ldindb", _ => "ldinddw",
        },
        1 => match opc & 0x18 { 0x00 => "ldxw", 0x08 => "ldxh", 0x10 => "ldxb", _ => "ldxdw" },
        2 => match opc & 0x18 { 0x00 => "stw", 0x08 => "sth", 0x10 => "stb", _ => "stdw" },
        3 => {
            if opc == 0xc3 { "stxxaddw" } else if opc == 0xdb { "stxxadddw" } else {
                match opc & 0x18 { 0x00 => "stxw", 0x08 => "stxh", 0x10 => "stxb", _ => "stxdw" }
            }
        }
        4 => match op {
            0x00 => "add32", 0x10 => "sub32", 0x20 => "mul32", 0x30 => "div32", 0x40 => "or32", 0x50 => "and32",
            0x60 => "lsh32", 0x70 => "rsh32", 0x80 => "neg32", 0x90 => "mod32", 0xa0 => "xor32", 0xb0 => "mov32",
            0xc0 => "arsh32", _ => if opc & 8 != 0 { "be" } else { "le" },
        },
        7 => match op {
            0x00 => "add64", 0x10 => "sub64", 0x20 => "mul64", 0x30 => "div64", 0x40 => "or64", 0x50 => "and64",
            0x60 => "lsh64", 0x70 => "rsh64", 0x80 => "neg64", 0x90 => "mod64", 0xa0 => "xor64", 0xb0 => "mov64",
            _ => "arsh64",
        },
        5 => match op {
            0x00 => "ja", 0x10 => "jeq", 0x20 => "jgt", 0x30 => "jge", 0x40 => "jset", 0x50 => "jne", 0x60 => "jsgt",
            0x70 => "jsge", 0x80 => if opc & 8 != 0 { "tail_call" } else { "call" }, 0x90 => "exit",
            0xa0 => "jlt", 0xb0 => "jle", 0xc0 => "jslt", _ => "jsle",
        },
        _ => match op {
            0x10 => "jeq32", 0x20 => "jgt32", 0x30 => "jge32", 0x40 => "jset32", 0x50 => "jne32", 0x60 => "jsgt32",
            0x70 => "jsge32", 0xa0 => "jlt32", 0xb0 => "jle32", 0xc0 => "jslt32", _ => "jsle32",
        },
    }
}

const N: Piece = Piece::None;

fn off_sign(off: i16) -> &'static str {
    if off >= 0 { "+" } else { "-" }
}
fn off_mag(off: i16) -> Piece {
    // the documented syntax prints the magnitude after an explicit sign
    Piece::Hex(if off >= 0 { off as i128 } else { -(off as i128) }, 64)
}

/// name and text of one instruction; `imm64` is the merged immediate for lddw.
pub fn render(opc: u8, dst: u8, src: u8, off: i16, imm: i32, imm64: i64) -> Rendered {
    let cls = opc & 7;
    let mut name = mnemonic(opc);
    let d = Piece::Dec(dst as i128);
    let s = Piece::Dec(src as i128);
    let i = Piece::Hex(imm as i128, 32);
    let pieces = match cls {
        0 => {
            if opc == 0x18 {
                [Piece::Lit(name), Piece::Lit(" r"), d, Piece::Lit(", "), Piece::Hex(imm64 as i128, 64), N, N, N, N, N]
            } else if opc & 0xe0 == 0x20 {
                [Piece::Lit(name), Piece::Lit(" "), i, N, N, N, N, N, N, N]
            } else {
                [Piece::Lit(name), Piece::Lit(" r"), s, Piece::Lit(", "), i, N, N, N, N, N]
            }
        }
        1 => [Piece::Lit(name), Piece::Lit(" r"), d, Piece::Lit(", [r"), s, Piece::Lit(off_sign(off)), off_mag(off), Piece::Lit("]"), N, N],
        2 => [Piece::Lit(name), Piece::Lit(" [r"), d, Piece::Lit(off_sign(off)), off_mag(off), Piece::Lit("], "), i, N, N, N],
        3 => [Piece::Lit(name), Piece::Lit(" [r"), d, Piece::Lit(off_sign(off)), off_mag(off), Piece::Lit("], r"), s, N, N, N],
        4 | 7 => {
            let op = opc & 0xf0;
            if op == 0x80 {
                [Piece::Lit(name), Piece::Lit(" r"), d, N, N, N, N, N, N, N]
            } else if op == 0xd0 {
                [Piece::Lit(name), Piece::Dec(imm as i128), Piece::Lit(" r"), d, N, N, N, N, N, N]
            } else if opc & 8 != 0 {
                [Piece::Lit(name), Piece::Lit(" r"), d, Piece::Lit(", r"), s, N, N, N, N, N]
            } else {
                [Piece::Lit(name), Piece::Lit(" r"), d, Piece::Lit(", "), i, N, N, N, N, N]
            }
        }
        _ => {
            if opc == 0x05 {
                [Piece::Lit(name), Piece::Lit(" "), Piece::Lit(off_sign(off)), off_mag(off), N, N, N, N, N, N]
            } else if opc == 0x85 {
                if src == 1 { name = "callx"; }
                [Piece::Lit(name), Piece::Lit(" "), i, N, N, N, N, N, N, N]
            } else if opc == 0x8d || opc == 0x95 {
                [Piece::Lit(name), N, N, N, N, N, N, N, N, N]
            } else if opc & 8 != 0 {
                [Piece::Lit(name), Piece::Lit(" r"), d, Piece::Lit(", r"), s, Piece::Lit(", "), Piece::Lit(off_sign(off)), off_mag(off), N, N]
            } else {
                [Piece::Lit(name), Piece::Lit(" r"), d, Piece::Lit(", "), i, Piece::Lit(", "), Piece::Lit(off_sign(off)), off_mag(off), N, N]
            }
        }
    };
    Rendered { name, pieces }
}

/// Canonical form of a rendered text: the literal characters with a 0x01 marker in
/// place of every number, plus the numbers in order.  Two renderings denote the same
/// text iff their canonical forms are equal (core::fmt prints a decimal / `{:#x}`
/// number as a function of (value, width) - trusted).
#[derive(Clone, Copy)]
pub struct Canon {
    pub text: [u8; 64],
    pub len: usize,
    pub nums: [(i128, bool, u8); 4],
    pub nn: usize,
}

impl Canon {
    pub fn new() -> Canon {
        Canon { text: [0; 64], len: 0, nums: [(0, false, 0); 4], nn: 0 }
    }
    pub fn push_str(&mut self, s: &str) {
        for b in s.bytes() {
            if self.len < 64 {
                self.text[self.len] = b;
                self.len += 1;
            }
        }
    }
    pub fn push_num(&mut self, v: i128, hex: bool, bits: u8) {
        if self.len < 64 && self.nn < 4 {
            self.text[self.len] = 1;
            self.len += 1;
            // the width only matters for negative hexadecimal numbers
            self.nums[self.nn] = (v, hex, if hex && v < 0 { bits } else { 0 });
            self.nn += 1;
        }
    }
    pub fn push_piece(&mut self, p: &Piece) {
        match p {
            Piece::Lit(s) => self.push_str(s),
            Piece::Dec(v) => self.push_num(*v, false, 0),
            Piece::Hex(v, b) => self.push_num(*v, true, *b),
            Piece::None => {}
        }
    }
    pub fn of(pieces: &[Piece]) -> Canon {
        let mut c = Canon::new();
        for p in pieces {
            c.push_piece(p);
        }
        c
    }
    pub fn same(&self, o: &Canon) -> bool {
        if self.len != o.len || self.nn != o.nn {
            return false;
        }
        let mut k = 0;
        while k < 64 {
            if k < self.len && self.text[k] != o.text[k] {
                return false;
            }
            k += 1;
        }
        let mut j = 0;
        while j < 4 {
            if j < self.nn && self.nums[j] != o.nums[j] {
                return false;
            }
            j += 1;
        }
        true
    }
}
