// Contract helpers for the JIT unit: the correspondence between an x86-64 machine
// state and an eBPF state (the JIT's register convention), written from the
// documentation of the JIT (src/jit.rs header comments / C03 anchors):
//   r0..r10 -> rax, rdi, rsi, rdx, r9, r8, rbx, r13, r14, r15, rbp
//   x86 r10 holds the packet-data base (for ld_abs / ld_ind); rcx, r11 are scratch.
// Not extracted from /repo.
use crate::spec::*;
use crate::x86::*;

pub const MAP: [usize; 11] = [0, 7, 6, 2, 9, 8, 3, 13, 14, 15, 5];
pub const X_MEM_BASE: usize = 10;

pub fn ebpf_regs(x: &XState) -> [u64; 11] {
    [x.r[MAP[0]], x.r[MAP[1]], x.r[MAP[2]], x.r[MAP[3]], x.r[MAP[4]], x.r[MAP[5]], x.r[MAP[6]], x.r[MAP[7]],
     x.r[MAP[8]], x.r[MAP[9]], x.r[MAP[10]]]
}

pub fn default_frames() -> [SFrame; 8] {
    [SFrame { ret: 0, saved: [0; 4], usage: S_DEFAULT_FRAME }; 8]
}

pub fn access_same(x: &XAccess, n: u8, s: &SAccess) -> bool {
    match s {
        SAccess::None => *x == XAccess::None && n == 0,
        SAccess::Load { addr, width } => n == 1 && *x == XAccess::Load { addr: *addr, width: *width },
        SAccess::Store { addr, width, val } => n == 1 && *x == XAccess::Store { addr: *addr, width: *width, val: *val },
        SAccess::AtomicAdd { addr, width, val } => n == 1 && *x == XAccess::LockAdd { addr: *addr, width: *width, val: *val },
    }
}

/// registers the generated code may clobber freely: rcx, r11 (scratch of the JIT)
pub fn preserved_outside_map(pre: &[u64; 16], post: &[u64; 16]) -> bool {
    // rsp (4), r10 (packet base), r12 (never used) must survive every instruction
    pre[4] == post[4] && pre[10] == post[10] && pre[12] == post[12]
}

/// System V AMD64 ABI: rsp is 16-byte aligned immediately before a `call`.  The generated code calls
/// helpers with `call rax` from its body, so inside the body rsp must be 0 modulo 16.
pub const JIT_BODY_RSP_MOD16: u64 = 0;
