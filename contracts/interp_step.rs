// Contract of the extracted interpreter step (one iteration of the `while`
// loop of `interpreter::execute_program`) and of `check_mem`.
//
// requires  = the facts `verifier::check` establishes for the current
//             instruction (C06, proved in Verus) + the loop invariant Inv.
// ensures   = the step equals `spec::spec_step` (spec/ebpf_sem.rs) on the
//             abstract state, including the access log, the helper-call log,
//             the instruction indices fetched and the invariant Inv.
//
// This file is included into the generated module `interpreter` of the
// harness crate, next to the extracted text.  It contains no code from /repo.

use crate::shadow::{AccessKind, AccessRec, Memory};
use crate::spec::*;
use crate::stack::verif_access as sa;

#[derive(Clone, Copy)]
pub struct IState {
    pub reg: [u64; 11],
    pub stacks: [StackFrame; MAX_CALL_DEPTH],
    pub stack_frame_idx: usize,
    pub insn_ptr: usize,
    /// set by the generated epilogue when the loop body fell through to the next iteration
    pub continued: bool,
}

pub struct Env {
    pub insns: [ebpf::Insn; 2],
    pub nfetch: usize,
    pub fetch_idx: [usize; 2],
    /// number of instructions in the program
    pub n_insns: usize,
    pub memory: Memory,
}

impl Env {
    /// Stands for `ebpf::get_insn(prog, idx)`; its contract (C17): returns
    /// slot `idx`, panics iff the slot is outside the program.  The
    /// instruction is returned by call count so that the opcode stays a
    /// compile-time constant for symbolic execution.
    pub fn fetch(&mut self, idx: usize) -> ebpf::Insn {
        assert!(idx < self.n_insns, "instruction fetch outside the program");
        let k = self.nfetch;
        self.nfetch += 1;
        if k == 0 {
            self.fetch_idx[0] = idx;
            self.insns[0].clone()
        } else {
            self.fetch_idx[1] = idx;
            self.insns[1].clone()
        }
    }
}

pub fn abs_frame(f: &StackFrame) -> SFrame {
    let r = sa::frame_saved(f);
    SFrame { ret: sa::frame_ret(f), saved: [r[0], r[1], r[2], r[3]], usage: sa::frame_usage(f) }
}

pub fn abs_state(st: &IState) -> SState {
    SState {
        reg: st.reg,
        pc: st.insn_ptr,
        depth: st.stack_frame_idx,
        frames: [
            abs_frame(&st.stacks[0]), abs_frame(&st.stacks[1]), abs_frame(&st.stacks[2]), abs_frame(&st.stacks[3]),
            abs_frame(&st.stacks[4]), abs_frame(&st.stacks[5]), abs_frame(&st.stacks[6]), abs_frame(&st.stacks[7]),
        ],
    }
}

pub fn sinsn(i: &ebpf::Insn) -> SInsn {
    SInsn { opc: i.opc, dst: i.dst, src: i.src, off: i.off, imm: i.imm }
}

pub fn region_ok(r: &Region) -> bool {
    r.base.checked_add(r.len as u64).is_some()
}

pub fn layout(mem: &Region, mbuff: &Region, stack: &Region, allowed: &HashSet<Range<u64>>) -> SLayout {
    SLayout {
        mbuff: SRegion { base: mbuff.base, len: mbuff.len as u64 },
        mem: SRegion { base: mem.base, len: mem.len as u64 },
        stack: SRegion { base: stack.base, len: stack.len as u64 },
        allowed: match &allowed.member {
            Some(r) => Some((r.start, r.end)),
            None => None,
        },
    }
}

fn ret_ok(st: &SState, k: usize, n: usize) -> bool {
    k >= st.depth || st.frames[k].ret < n
}

fn live_usage(st: &SState, k: usize) -> u64 {
    if k < st.depth { st.frames[k].usage as u64 } else { 0 }
}

/// Lowest address the allocator is assumed to return for the 512-byte stack
/// (standing assumption, reported in the evidence): 8 frames of at most 65535
/// bytes can then never take r10 below zero, so `reg[10] -= usage` cannot wrap.
pub const ASSUMED_MIN_STACK_BASE: u64 = 8 * 65535;

/// r10 is the stack top lowered by the frame sizes of the live callers (the
/// program cannot write r10: C06).
pub fn r10_ok(st: &SState, stack_base: u64) -> bool {
    let total = live_usage(st, 0) + live_usage(st, 1) + live_usage(st, 2) + live_usage(st, 3)
        + live_usage(st, 4) + live_usage(st, 5) + live_usage(st, 6) + live_usage(st, 7);
    stack_base >= ASSUMED_MIN_STACK_BASE
        && stack_base.checked_add(S_STACK_SIZE).is_some()
        && st.reg[10] == stack_base + S_STACK_SIZE - total
}

/// Inv (C05): pc inside the program, depth bounded, every live return address inside the program.
pub fn inv(st: &SState, n: usize, stack_base: u64) -> bool {
    r10_ok(st, stack_base) && st.pc < n && st.depth <= S_MAX_DEPTH
        && ret_ok(st, 0, n) && ret_ok(st, 1, n) && ret_ok(st, 2, n) && ret_ok(st, 3, n)
        && ret_ok(st, 4, n) && ret_ok(st, 5, n) && ret_ok(st, 6, n) && ret_ok(st, 7, n)
}

pub fn step_pre_base(
    st: &IState, env: &Env, stack_usage: &StackUsage, mem: &Region, mbuff: &Region, stack_r: &Region,
    helpers: &HashMap<u32, ebpf::Helper>, allowed_memory: &HashSet<Range<u64>>,
) -> bool {
    let a = abs_state(st);
    let _ = (stack_usage, helpers, allowed_memory);
    env.nfetch == 0 && env.memory.log.is_none() && env.memory.naccess == 0
        && !st.continued
        && region_ok(mem) && region_ok(mbuff) && region_ok(stack_r) && stack_r.len == S_STACK_SIZE as usize
        && inv(&a, env.n_insns, stack_r.base)
        && wf_facts(&sinsn(&env.insns[0]), st.insn_ptr, env.n_insns)
}

pub fn step_pre(
    st: &IState, env: &Env, stack_usage: &StackUsage, mem: &Region, mbuff: &Region, stack_r: &Region,
    helpers: &HashMap<u32, ebpf::Helper>, allowed_memory: &HashSet<Range<u64>>,
) -> bool {
    step_pre_base(st, env, stack_usage, mem, mbuff, stack_r, helpers, allowed_memory)
        && KNOWN_FINDING_EXCLUSION(st, env, mem)
}

fn access_matches(log: &Option<AccessRec>, n: u8, want: &SAccess) -> bool {
    match want {
        SAccess::None => log.is_none() && n == 0,
        SAccess::Load { addr, width } => match log {
            Some(r) => n == 1 && r.kind == AccessKind::Load && r.addr == *addr && r.width == *width,
            None => false,
        },
        SAccess::Store { addr, width, val } => match log {
            Some(r) => n == 1 && r.kind == AccessKind::Store && r.addr == *addr && r.width == *width && r.val == *val,
            None => false,
        },
        SAccess::AtomicAdd { addr, width, val } => match log {
            Some(r) => n == 1 && r.kind == AccessKind::AtomicAdd && r.addr == *addr && r.width == *width && r.val == *val,
            None => false,
        },
    }
}

pub struct HelperObs {
    pub ncalls: u8,
    pub args: [u64; 5],
    pub ret: u64,
}

pub struct StepPost {
    pub result_kind: bool,
    pub registers: bool,
    pub pc: bool,
    pub frames: bool,
    pub access: bool,
    pub helper: bool,
    pub fetch: bool,
    pub lookups: bool,
    pub inv: bool,
}

#[allow(clippy::too_many_arguments)]
pub fn step_post(
    old: &IState, st: &IState, env: &Env, stack_usage: &StackUsage, mem: &Region, mbuff: &Region, stack_r: &Region,
    helpers: &HashMap<u32, ebpf::Helper>, allowed_memory: &HashSet<Range<u64>>, hobs: &HelperObs,
    result: &Result<u64, Error>, dst_value_elsewhere: bool,
) -> StepPost {
    let pre = abs_state(old);
    let insn = sinsn(&env.insns[0]);
    let lay = layout(mem, mbuff, stack_r, allowed_memory);
    let oracle = SOracle {
        load_data: env.memory.data,
        helper_present: helpers.val.is_some(),
        helper_ret: hobs.ret,
        entry_usage: match &stack_usage_map(stack_usage).val {
            Some(u) => Some(u.stack_usage()),
            None => None,
        },
        next_imm: env.insns[1].imm,
    };
    let want = spec_step(&pre, insn, &lay, &oracle);
    // instruction fetches: the current slot, and the next one only for lddw
    let fetch_ok = env.fetch_idx[0] == pre.pc
        && if insn.opc == OP_LDDW { env.nfetch == 2 && env.fetch_idx[1] == pre.pc + 1 } else { env.nfetch == 1 };
    // the frame-size table is consulted with the current pc
    let usage_lookup_ok = pre.depth >= S_MAX_DEPTH
        || (stack_usage_map(stack_usage).nlook.get() == 1 && stack_usage_map(stack_usage).looked.get() == Some(pre.pc));
    // helper table is consulted only by CALL imm, with the id of the instruction
    let helper_lookup_ok = if insn.opc == OP_CALL && insn.src == 0 {
        helpers.nlook.get() == 1 && helpers.looked.get() == Some(insn.imm as u32)
    } else {
        helpers.nlook.get() == 0
    };
    let helper_call_ok = match want.helper_args {
        Some(a) => hobs.ncalls == 1 && hobs.args[0] == a[0] && hobs.args[1] == a[1] && hobs.args[2] == a[2]
            && hobs.args[3] == a[3] && hobs.args[4] == a[4],
        None => hobs.ncalls == 0,
    };
    let access_ok = access_matches(&env.memory.log, env.memory.naccess, &want.access);
    let got = abs_state(st);
    match want.kind {
        SKind::Err => StepPost {
            result_kind: result.is_err(),
            registers: true, pc: true, frames: true,
            access: access_ok, helper: helper_call_ok, fetch: true, lookups: true, inv: true,
        },
        SKind::Exit(v) => StepPost {
            result_kind: (match result { Ok(r) => *r == v, Err(_) => false }) && !st.continued,
            registers: true, pc: true, frames: true,
            access: access_ok, helper: helper_call_ok, fetch: fetch_ok, lookups: helper_lookup_ok, inv: true,
        },
        SKind::Continue => StepPost {
            result_kind: result.is_ok() && st.continued,
            // for mul32/div/mod the VALUE written to dst is the Verus obligation `alu_arms`
            // (CBMC does not decide equivalence of two multipliers/dividers in reasonable time)
            registers: if dst_value_elsewhere { regs_eq_except(&got.reg, &want.post.reg, insn.dst as usize) } else { regs_eq(&got.reg, &want.post.reg) },
            pc: got.pc == want.post.pc,
            frames: got.depth == want.post.depth && frames_eq(&got.frames, &want.post.frames),
            access: access_ok, helper: helper_call_ok, fetch: fetch_ok,
            lookups: usage_lookup_ok && helper_lookup_ok,
            // Inv is re-established (C05): the next fetch is inside the program
            // on the state the code actually produced
            inv: inv(&got, env.n_insns, stack_r.base),
        },
    }
}

// ------------------------------------------------------------------ check_mem

pub fn check_mem_pre(len: usize, mbuff: &Region, mem: &Region, stack: &Region) -> bool {
    region_ok(mbuff) && region_ok(mem) && region_ok(stack) && len >= 1 && len <= 8
}

pub fn check_mem_post(
    addr: u64, len: usize, mbuff: &Region, mem: &Region, stack: &Region, allowed: &HashSet<Range<u64>>,
    result: &Result<(), Error>,
) -> bool {
    let lay = layout(mem, mbuff, stack, allowed);
    result.is_ok() == access_allowed(addr, len as u8, &lay)
}
