// Replay tool: runs witnesses against the REAL rbpf crate at /repo.
//   replay finding <id>      -> prints REPRODUCED / NOT-REPRODUCED <what>
mod arith { include!("../../spec/arith_real.rs"); }
mod spec { include!("../../spec/ebpf_sem.rs"); }
mod asmtable;
mod findings;
mod step;

fn main() {
    let args: Vec<String> = std::env::args().collect();
    if args.len() >= 3 && args[1] == "finding" {
        match findings::run(&args[2]) {
            Some((true, what)) => println!("REPRODUCED {}", what),
            Some((false, what)) => println!("NOT-REPRODUCED {}", what),
            None => {
                println!("UNKNOWN finding id {}", args[2]);
                std::process::exit(2);
            }
        }
        return;
    }
    if args.len() >= 2 && args[1] == "asm-table" {
        let ok = asmtable::run();
        std::process::exit(if ok { 0 } else { 1 });
    }
    if args.len() >= 3 && args[1] == "step" {
        let txt = std::fs::read_to_string(&args[2]).expect("witness file");
        match step::from_json(&txt) {
            Ok(w) => println!("{}", step::replay(&w)),
            Err(e) => { println!("NOT-REPLAYABLE bad witness file: {}", e); std::process::exit(2); }
        }
        return;
    }
    eprintln!("usage: replay finding <id> | asm-table | step <witness.json>");
    std::process::exit(2);
}
