// Replay tool: runs witnesses against the REAL rbpf crate at /repo.
//   replay finding <id>      -> prints REPRODUCED / NOT-REPRODUCED <what>
mod arith { include!("../../spec/arith_real.rs"); }
mod spec { include!("../../spec/ebpf_sem.rs"); }
mod asmtable;
mod findings;
mod step;

fn main() {
    let args: Vec<String> = std::env::args().collect();
    if args.len() >= 3 && args[1] == "finding" {
        match findings::run(&args[2]) {
            Some((true, what)) => println!("REPRODUCED {}", what),
            Some((false, what)) => println!("NOT-REPRODUCED {}", what),
            None => {
                println!("UNKNOWN finding id {}", args[2]);
                std::process::exit(2);
            }
        }
        return;
    }
    if args.len() >= 2 && args[1] == "asm-table" {
        let ok = asmtable::run();
        std::process::exit(if ok { 0 } else { 1 });
    }
    if args.len() >= 3 && (args[1] == "step" || args[1] == "step-child") {
        let txt = std::fs::read_to_string(&args[2]).expect("witness file");
        match step::from_json(&txt) {
            Ok(w) if w.engine != step::Engine::Interp && args[1] == "step" => {
                // compiled engines: a trap or a wild access kills the process, so the run happens in a child
                let out = std::process::Command::new(std::env::current_exe().unwrap()).args(["step-child", &args[2]]).output().expect("spawn");
                let txt = String::from_utf8_lossy(&out.stdout).to_string();
                let lines: Vec<&str> = txt.lines().collect();
                if out.status.code().is_some() {
                    println!("{}", lines.last().copied().unwrap_or("NOT-REPLAYABLE no output"));
                } else {
                    use std::os::unix::process::ExitStatusExt;
                    let sig = out.status.signal().unwrap_or(0);
                    // Cranelift's trap is an undefined instruction (SIGILL) or a breakpoint (SIGTRAP); SIGSEGV / SIGBUS
                    // mean the compiled code really touched memory it does not own
                    let trap = w.engine == step::Engine::Clif && (sig == 4 || sig == 5);
                    let expect = lines.iter().rev().find(|l| l.starts_with("EXPECT-")).copied().unwrap_or("EXPECT-UNKNOWN");
                    let run = lines.iter().rev().find(|l| l.starts_with("RUN ")).copied().unwrap_or("RUN ?");
                    match (expect, trap) {
                        ("EXPECT-ERR", true) => println!("NOT-REPRODUCED the real Cranelift code trapped (signal {}, {}) where the ISA prescribes an error", sig, run),
                        ("EXPECT-ERR", false) if w.engine == step::Engine::Clif => println!("REPRODUCED the ISA prescribes an error BEFORE the access (trap); the real Cranelift code performed a wild access instead (signal {}, {})", sig, run),
                        ("EXPECT-ERR", false) => println!("NOT-REPRODUCED the real {:?} code crashed (signal {}, {}) on an access the ISA calls out of bounds (outside the claim: the JIT does not check bounds)", w.engine, sig, run),
                        ("EXPECT-OK", _) => println!("REPRODUCED the ISA prescribes normal continuation, the real {:?} engine trapped / crashed the process (signal {}) during {}", w.engine, sig, run),
                        _ => println!("NOT-REPLAYABLE the real {:?} engine died (signal {}) during {} and the witness involves the stack (its address is only known after a run)", w.engine, sig, run),
                    }
                }
            }
            Ok(w) => println!("{}", step::replay(&w)),
            Err(e) => { println!("NOT-REPLAYABLE bad witness file: {}", e); std::process::exit(2); }
        }
        return;
    }
    if args.len() >= 2 && args[1] == "wf-witness" {
        // vacuity guard: for every supported opcode there is a concrete instruction satisfying the
        // precondition `wf_facts` the per-opcode harnesses assume (pc 0 of 4 slots, and pc 5 of 10)
        let mut all = true;
        for opc in 0..=255u8 {
            if !spec::supported(opc) || opc == spec::OP_TAIL_CALL { continue; }
            let mut found = [false, false];
            for (k, (pc, n)) in [(0usize, 4usize), (5, 10)].iter().enumerate() {
                'search: for dst in 0..=10u8 { for src in 0..=10u8 { for off in [0i16, 1, 2, -2] { for imm in [0i32, 1, 16, 32, 64, -1] {
                    let i = spec::SInsn { opc, dst, src, off, imm };
                    if spec::wf_facts(&i, *pc, *n) { found[k] = true; break 'search; }
                } } } }
            }
            let ok = found[0] && found[1];
            println!("OBLIGATION wf-witness:{:#04x} {} ", opc, if ok { "ok" } else { "failed" });
            all &= ok;
        }
        std::process::exit(if all { 0 } else { 1 });
    }
    eprintln!("usage: replay finding <id> | asm-table | step <witness.json>");
    std::process::exit(2);
}
