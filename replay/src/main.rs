// Replay tool: runs witnesses against the REAL rbpf crate at /repo.
//   replay finding <id>      -> prints REPRODUCED / NOT-REPRODUCED <what>
mod arith { include!("../../spec/arith_real.rs"); }
mod spec { include!("../../spec/ebpf_sem.rs"); }
mod asmtable;
mod findings;
mod step;

fn main() {
    let args: Vec<String> = std::env::args().collect();
    if args.len() >= 3 && args[1] == "finding" {
        match findings::run(&args[2]) {
            Some((true, what)) => println!("REPRODUCED {}", what),
            Some((false, what)) => println!("NOT-REPRODUCED {}", what),
            None => {
                println!("UNKNOWN finding id {}", args[2]);
                std::process::exit(2);
            }
        }
        return;
    }
    if args.len() >= 2 && args[1] == "asm-table" {
        let ok = asmtable::run();
        std::process::exit(if ok { 0 } else { 1 });
    }
    if args.len() >= 3 && (args[1] == "step" || args[1] == "step-child") {
        let txt = std::fs::read_to_string(&args[2]).expect("witness file");
        match step::from_json(&txt) {
            Ok(w) if w.engine != step::Engine::Interp && args[1] == "step" => {
                // compiled engines: a trap or a wild access kills the process, so the run happens in a child
                let out = std::process::Command::new(std::env::current_exe().unwrap()).args(["step-child", &args[2]]).output().expect("spawn");
                let txt = String::from_utf8_lossy(&out.stdout).to_string();
                let lines: Vec<&str> = txt.lines().collect();
                if out.status.code().is_some() {
                    println!("{}", lines.last().copied().unwrap_or("NOT-REPLAYABLE no output"));
                } else {
                    use std::os::unix::process::ExitStatusExt;
                    let sig = out.status.signal().unwrap_or(0);
                    // Cranelift's trap is an undefined instruction (SIGILL) or a breakpoint (SIGTRAP); SIGSEGV / SIGBUS
                    // mean the compiled code really touched memory it does not own
                    let trap = w.engine == step::Engine::Clif && (sig == 4 || sig == 5);
                    let expect = lines.iter().rev().find(|l| l.starts_with("EXPECT-")).copied().unwrap_or("EXPECT-UNKNOWN");
                    let run = lines.iter().rev().find(|l| l.starts_with("RUN ")).copied().unwrap_or("RUN ?");
                    match (expect, trap) {
                        ("EXPECT-ERR", true) => println!("NOT-REPRODUCED the real Cranelift code trapped (signal {}, {}) where the ISA prescribes an error", sig, run),
                        ("EXPECT-ERR", false) if w.engine == step::Engine::Clif => println!("REPRODUCED the ISA prescribes an error BEFORE the access (trap); the real Cranelift code performed a wild access instead (signal {}, {})", sig, run),
                        ("EXPECT-ERR", false) => println!("NOT-REPRODUCED the real {:?} code crashed (signal {}, {}) on an access the ISA calls out of bounds (outside the claim: the JIT does not check bounds)", w.engine, sig, run),
                        ("EXPECT-OK", _) => println!("REPRODUCED the ISA prescribes normal continuation, the real {:?} engine trapped / crashed the process (signal {}) during {}", w.engine, sig, run),
                        _ => println!("NOT-REPLAYABLE the real {:?} engine died (signal {}) during {} and the witness involves the stack (its address is only known after a run)", w.engine, sig, run),
                    }
                }
            }
            Ok(w) => println!("{}", step::replay(&w)),
            Err(e) => { println!("NOT-REPLAYABLE bad witness file: {}", e); std::process::exit(2); }
        }
        return;
    }
    if args.len() >= 2 && args[1] == "spec-sanity" {
        // ORACLE CROSS-CHECK (informational, decides nothing): pseudo-random single-instruction witnesses for
        // every supported opcode are run on the REAL interpreter and compared with spec_step.  A disagreement
        // outside the known findings would mean the specification, not the code, needs a second look.
        let per: usize = args.get(2).and_then(|s| s.parse().ok()).unwrap_or(200);
        let mut x: u64 = args.get(3).and_then(|s| s.parse().ok()).unwrap_or(1) ^ 0x9E3779B97F4A7C15;
        let mut rnd = move || { x ^= x << 13; x ^= x >> 7; x ^= x << 17; x };
        let special: [u64; 12] = [0, 1, 2, 31, 32, 63, 64, 0x7fff_ffff, 0x8000_0000, 0xffff_ffff, 0x8000_0000_0000_0000, u64::MAX];
        let (mut agree, mut differ, mut skipped, mut unexplained) = (0usize, 0usize, 0usize, 0usize);
        let mut differ_opcs: Vec<u8> = vec![];
        for opc in 0..=255u8 {
            if !spec::supported(opc) || opc == spec::OP_TAIL_CALL || opc == spec::OP_CALL || opc == spec::OP_EXIT { continue; }
            let (mut a, mut d, mut k) = (0usize, 0usize, 0usize);
            let mut first = String::new();
            for _ in 0..per {
                let mem = (0x10000u64, 64u64);
                let mbuff = (0x20000u64, 32u64);
                let mut reg = [0u64; 11];
                for r in reg.iter_mut() {
                    *r = match rnd() % 4 { 0 => special[(rnd() % 12) as usize], 1 => mem.0.wrapping_add(rnd() % 80).wrapping_sub(8), 2 => mbuff.0.wrapping_add(rnd() % 48).wrapping_sub(8), _ => rnd() };
                }
                let imm = match rnd() % 3 { 0 => special[(rnd() % 12) as usize] as i32, 1 => (rnd() % 64) as i32, _ => rnd() as i32 };
                let off = if spec::is_jump(opc) { (rnd() % 8) as i16 - 3 } else { (rnd() % 24) as i16 - 8 };
                // r10 is only known after a successful run and the observer uses [r10-8]: no r10-based memory operands here
                let src_n = if opc & 7 <= 3 { 10 } else { 11 };
                let insn = spec::SInsn { opc, dst: (rnd() % 10) as u8, src: (rnd() % src_n) as u8, off, imm };
                if !spec::wf_facts(&insn, 64, 200) { k += 1; continue; }
                let w = step::Wit { engine: step::Engine::Interp, insn, next_imm: rnd() as i32, reg, pc: 64, n: 200, depth: 0, mem, mbuff, stack: (0, 0), load_data: rnd() };
                let r = step::replay(&w);
                if r.starts_with("NOT-REPRODUCED") { a += 1; }
                else if r.starts_with("REPRODUCED") {
                    d += 1;
                    // open finding interp-jmp-imm-zero-extended: 64-bit jeq/jgt/jge/jlt/jle/jne with a negative immediate
                    let known = [0x15u8, 0x25, 0x35, 0x55, 0xa5, 0xb5].contains(&opc) && insn.imm < 0;
                    if !known { unexplained += 1; println!("SANITY-UNEXPLAINED {}", r); }
                    if first.is_empty() { first = r; }
                }
                else { k += 1; }
            }
            println!("SANITY opc={:#04x} agree={} differ={} not-runnable={} {}", opc, a, d, k, first);
            agree += a; differ += d; skipped += k;
            if d > 0 { differ_opcs.push(opc); }
        }
        println!("SANITY-TOTAL agree={} differ={} (explained by open finding interp-jmp-imm-zero-extended: {}, unexplained: {}) not-runnable={} differing-opcodes={:02x?}", agree, differ, differ - unexplained, unexplained, skipped, differ_opcs);
        return;
    }
    if args.len() >= 2 && args[1] == "wf-witness" {
        // vacuity guard: for every supported opcode there is a concrete instruction satisfying the
        // precondition `wf_facts` the per-opcode harnesses assume (pc 0 of 4 slots, and pc 5 of 10)
        let mut all = true;
        for opc in 0..=255u8 {
            if !spec::supported(opc) || opc == spec::OP_TAIL_CALL { continue; }
            let mut found = [false, false];
            for (k, (pc, n)) in [(0usize, 4usize), (5, 10)].iter().enumerate() {
                'search: for dst in 0..=10u8 { for src in 0..=10u8 { for off in [0i16, 1, 2, -2] { for imm in [0i32, 1, 16, 32, 64, -1] {
                    let i = spec::SInsn { opc, dst, src, off, imm };
                    if spec::wf_facts(&i, *pc, *n) { found[k] = true; break 'search; }
                } } } }
            }
            let ok = found[0] && found[1];
            println!("OBLIGATION wf-witness:{:#04x} {} ", opc, if ok { "ok" } else { "failed" });
            all &= ok;
        }
        std::process::exit(if all { 0 } else { 1 });
    }
    eprintln!("usage: replay finding <id> | asm-table | step <witness.json>");
    std::process::exit(2);
}
