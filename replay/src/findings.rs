// Concrete witnesses of the findings listed in /verif/known_findings.json, run
// against the REAL crate.  `run(id)` returns Some(true) when the listed
// misbehaviour is observed, Some(false) when the real crate behaves as the
// property prescribes, None for an unknown id.
use rbpf::ebpf::{self, Insn};
use std::panic::{catch_unwind, AssertUnwindSafe};

pub fn prog(insns: &[Insn]) -> Vec<u8> {
    insns.iter().flat_map(|i| i.to_array()).collect()
}
pub fn i(opc: u8, dst: u8, src: u8, off: i16, imm: i32) -> Insn {
    Insn { opc, dst, src, off, imm }
}

#[derive(Debug, PartialEq)]
pub enum Out {
    Ok(u64),
    Err,
    Panic,
    Rejected,
}

pub fn run_raw(p: &[u8], mem: &mut [u8]) -> Out {
    let vm = match rbpf::EbpfVmRaw::new(Some(p)) {
        Ok(v) => v,
        Err(_) => return Out::Rejected,
    };
    match catch_unwind(AssertUnwindSafe(|| vm.execute_program(mem))) {
        Ok(Ok(v)) => Out::Ok(v),
        Ok(Err(_)) => Out::Err,
        Err(_) => Out::Panic,
    }
}

fn both(p: &[u8]) -> (Option<u64>, Option<u64>) {
    let mut vm = rbpf::EbpfVmNoData::new(Some(p)).unwrap();
    let a = vm.execute_program().ok();
    vm.jit_compile().unwrap();
    let b = unsafe { vm.execute_program_jit() }.ok();
    (a, b)
}

fn interp_vs_clif(p: &[u8]) -> (Option<u64>, String) {
    let mut vm = rbpf::EbpfVmNoData::new(Some(p)).unwrap();
    let a = vm.execute_program().ok();
    let b = match catch_unwind(AssertUnwindSafe(|| { vm.cranelift_compile().map(|_| vm.execute_program_cranelift().ok()) })) {
        Ok(Ok(v)) => format!("{:?}", v),
        Ok(Err(_)) => "compile error".to_string(),
        Err(_) => "panic".to_string(),
    };
    (a, b)
}

fn quiet<T>(f: impl FnOnce() -> T) -> T {
    let hook = std::panic::take_hook();
    std::panic::set_hook(Box::new(|_| {}));
    let r = f();
    std::panic::set_hook(hook);
    r
}

pub fn run(id: &str) -> Option<(bool, String)> {
    quiet(|| run_inner(id))
}

fn run_inner(id: &str) -> Option<(bool, String)> {
    Some(match id {
        // jump at pc >= 32768: `insn_ptr as i16 + off`
        "interp-jump-i16" => {
            let n = 40_003usize;
            let mut v = vec![i(ebpf::MOV64_IMM, 0, 0, 0, 0); n];
            v[40_000] = i(ebpf::MOV64_IMM, 0, 0, 0, 7);
            v[40_001] = i(ebpf::JEQ_IMM, 0, 0, 1, 7); // taken: skips the mov below
            v[40_002] = i(ebpf::MOV64_IMM, 0, 0, 0, 9);
            v.push(i(ebpf::EXIT, 0, 0, 0, 0));
            let o = run_raw(&prog(&v), &mut []);
            (o != Out::Ok(7), format!("40004-insn program, `jeq r0,7,+1` at pc 40001: expected Ok(7), got {:?}", o))
        }
        // unsigned conditional jumps zero-extend the immediate
        "interp-jmp-imm-zero-extended" => {
            let v = [
                i(ebpf::MOV64_IMM, 1, 0, 0, -1),
                i(ebpf::MOV64_IMM, 0, 0, 0, 1),
                i(ebpf::JEQ_IMM, 1, 0, 1, -1),
                i(ebpf::MOV64_IMM, 0, 0, 0, 2),
                i(ebpf::EXIT, 0, 0, 0, 0),
            ];
            let o = run_raw(&prog(&v), &mut []);
            (o != Out::Ok(1), format!("mov r1,-1; jeq r1,-1,+1: sign-extended immediate prescribes taken (Ok(1)), got {:?}", o))
        }
        // consequence of the finding above for C03 / C04: the compiled engines follow the ISA, the interpreter does not
        "engines-disagree-jmp-imm-negative" => {
            let v = [
                i(ebpf::MOV64_IMM, 1, 0, 0, -1),
                i(ebpf::MOV64_IMM, 0, 0, 0, 1),
                i(ebpf::JEQ_IMM, 1, 0, 1, -1),
                i(ebpf::MOV64_IMM, 0, 0, 0, 2),
                i(ebpf::EXIT, 0, 0, 0, 0),
            ];
            let p = prog(&v);
            let (a, b) = both(&p);
            let (_, c) = interp_vs_clif(&p);
            (a != b || format!("{:?}", a) != c, format!("mov r1,-1; jeq r1,-1,+1: interpreter {:?}, x86-64 JIT {:?}, Cranelift {}", a, b, c))
        }
        "interp-neg64-min" => {
            let v = [
                i(ebpf::LD_DW_IMM, 0, 0, 0, 0),
                i(0, 0, 0, 0, i32::MIN),
                i(ebpf::NEG64, 0, 0, 0, 0),
                i(ebpf::EXIT, 0, 0, 0, 0),
            ];
            let o = run_raw(&prog(&v), &mut []);
            (o != Out::Ok(0x8000_0000_0000_0000), format!("neg64 of 0x8000000000000000: expected Ok(0x8000000000000000), got {:?}", o))
        }
        "interp-call-negative-imm" => {
            // 0: ja +2 ; 1: mov r0,5 ; 2: exit ; 3: call -3 (-> 1) ; 4: exit
            let v = [
                i(ebpf::JA, 0, 0, 2, 0),
                i(ebpf::MOV64_IMM, 0, 0, 0, 5),
                i(ebpf::EXIT, 0, 0, 0, 0),
                i(ebpf::CALL, 0, 1, 0, -3),
                i(ebpf::EXIT, 0, 0, 0, 0),
            ];
            let o = run_raw(&prog(&v), &mut []);
            (o != Out::Ok(5), format!("local call with displacement -3: expected Ok(5), got {:?}", o))
        }
        "interp-ldabs-width" => {
            let v = [i(ebpf::LD_ABS_B, 0, 0, 0, 15), i(ebpf::EXIT, 0, 0, 0, 0)];
            let mut mem = [0u8; 16];
            mem[15] = 0x5a;
            let o = run_raw(&prog(&v), &mut mem);
            (o != Out::Ok(0x5a), format!("ldabsb 15 on a 16-byte packet: expected Ok(0x5a), got {:?}", o))
        }
        "interp-ldind-overflow" => {
            let v = [
                i(ebpf::MOV64_IMM, 1, 0, 0, -1),
                i(ebpf::LD_IND_B, 0, 1, 0, 0),
                i(ebpf::EXIT, 0, 0, 0, 0),
            ];
            let mut mem = [0u8; 16];
            let o = run_raw(&prog(&v), &mut mem);
            (o != Out::Err, format!("ldindb with r1 = u64::MAX: expected an error value, got {:?}", o))
        }
        "interp-allowed-range-end" => {
            let buf = vec![0x11u8; 16];
            let start = buf.as_ptr() as u64;
            let hi = (start + 12) as i64;
            let v = [
                i(ebpf::LD_DW_IMM, 1, 0, 0, hi as i32),
                i(0, 0, 0, 0, (hi >> 32) as i32),
                i(ebpf::LD_DW_REG, 0, 1, 0, 0),
                i(ebpf::EXIT, 0, 0, 0, 0),
            ];
            let p = prog(&v);
            let mut vm = rbpf::EbpfVmRaw::new(Some(&p)).unwrap();
            vm.register_allowed_memory(start..start + 16);
            let o = match catch_unwind(AssertUnwindSafe(|| vm.execute_program(&mut []))) {
                Ok(Ok(v)) => Out::Ok(v),
                Ok(Err(_)) => Out::Err,
                Err(_) => Out::Panic,
            };
            (o != Out::Err, format!("8-byte load at end-4 of a registered 16-byte range: expected an error, got {:?}", o))
        }
        "verifier-last-insn-class-jmp" => {
            // ends with a conditional jump that is not taken: execution runs off the end
            let v = [
                i(ebpf::MOV64_IMM, 0, 0, 0, 0),
                i(ebpf::MOV64_IMM, 1, 0, 0, 0),
                i(ebpf::JEQ_IMM, 0, 0, -2, 1),
            ];
            let o = run_raw(&prog(&v), &mut []);
            (o != Out::Rejected, format!("program whose last instruction is `jeq r0,1,-2`: expected the verifier to refuse it, got {:?}", o))
        }
        "verifier-call-into-lddw" => {
            let v = [
                i(ebpf::JA, 0, 0, 2, 0),
                i(ebpf::LD_DW_IMM, 0, 0, 0, 1),
                i(0, 0, 0, 0, 0),
                i(ebpf::CALL, 0, 1, 0, -2),
                i(ebpf::EXIT, 0, 0, 0, 0),
            ];
            let o = run_raw(&prog(&v), &mut []);
            (o != Out::Rejected, format!("local call landing on the second half of an lddw: expected the verifier to refuse it, got {:?}", o))
        }
        "verifier-lddw-r10" => {
            let v = [i(ebpf::LD_DW_IMM, 10, 0, 0, 1), i(0, 0, 0, 0, 0), i(ebpf::EXIT, 0, 0, 0, 0)];
            let o = run_raw(&prog(&v), &mut []);
            (o != Out::Rejected, format!("`lddw r10, 1`: expected the verifier to refuse writing r10, got {:?}", o))
        }
        "helpers-rand-max" => {
            let o = match catch_unwind(|| rbpf::helpers::rand(0, u64::MAX, 0, 0, 0)) { Ok(v) => Out::Ok(v), Err(_) => Out::Panic };
            (o == Out::Panic, format!("rand(0, u64::MAX): expected a value in [0, u64::MAX], got {:?}", o))
        }
        "disasm-ja-min-offset" => {
            let p = prog(&[i(ebpf::JA, 0, 0, i16::MIN, 0), i(ebpf::EXIT, 0, 0, 0, 0)]);
            let o = catch_unwind(|| rbpf::disassembler::to_insn_vec(&p).len());
            (o.is_err(), format!("to_insn_vec on `ja -0x8000; exit`: expected 2 entries, got {:?}", o.ok()))
        }
        "asm-literal-panics" => {
            let texts = ["mov r0, 0x10000000000000000", "mov r0, 9223372036854775808", "lddw r0, -0x8000000000000000", "mov r99999999999999999999, 1"];
            let mut bad = vec![];
            for t in texts {
                if catch_unwind(|| rbpf::assembler::assemble(t).is_ok()).is_err() { bad.push(t); }
            }
            (!bad.is_empty(), format!("assemble() must return Ok or Err; it panicked on {:?}", bad))
        }
        "vm-set-program-stale-jit" => {
            let p1 = prog(&[i(ebpf::MOV64_IMM, 0, 0, 0, 1), i(ebpf::EXIT, 0, 0, 0, 0)]);
            let p2 = prog(&[i(ebpf::MOV64_IMM, 0, 0, 0, 2), i(ebpf::EXIT, 0, 0, 0, 0)]);
            let mut vm = rbpf::EbpfVmNoData::new(Some(&p1)).unwrap();
            vm.jit_compile().unwrap();
            vm.set_program(&p2).unwrap();
            let interp = vm.execute_program().ok();
            let jit = unsafe { vm.execute_program_jit() }.ok();
            (jit == Some(1), format!("new(p1); jit_compile(); set_program(p2): interpreter returns {:?}, execute_program_jit returns {:?} (expected p2's value 2 or an error)", interp, jit))
        }
        "fixedmbuff-set-program-order" => {
            // reads the data pointer at offset 0x40 of the metadata buffer
            let p1 = prog(&[i(ebpf::LD_DW_REG, 0, 1, 0x40, 0), i(ebpf::MOV64_IMM, 0, 0, 0, 7), i(ebpf::EXIT, 0, 0, 0, 0)]);
            let bad = prog(&[i(ebpf::MOV64_IMM, 0, 0, 0, 2)]); // no exit: refused by the verifier
            let mut vm = rbpf::EbpfVmFixedMbuff::new(Some(&p1), 0x40, 0x50).unwrap();
            let mut pkt = [0u8; 8];
            let before = vm.execute_program(unsafe { &mut *(&mut pkt as *mut [u8; 8]) }).ok();
            let refused = vm.set_program(&bad, 0, 8).is_err();
            let after = vm.execute_program(unsafe { &mut *(&mut pkt as *mut [u8; 8]) }).ok();
            (refused && before != after, format!("failed set_program(bad, 0, 8) on a VM configured with offsets (0x40, 0x50): execute_program before {:?}, after {:?} (must be identical)", before, after))
        }
        "jit-fixedmbuff-data-end" => {
            // returns data_end - data as read from the metadata buffer
            let p = prog(&[
                i(ebpf::LD_DW_REG, 2, 1, 0x40, 0),
                i(ebpf::LD_DW_REG, 0, 1, 0x50, 0),
                i(ebpf::SUB64_REG, 0, 2, 0, 0),
                i(ebpf::EXIT, 0, 0, 0, 0),
            ]);
            let mut vm = rbpf::EbpfVmFixedMbuff::new(Some(&p), 0x40, 0x50).unwrap();
            let mut pkt = [0x11u8; 8];
            let interp = vm.execute_program(unsafe { &mut *(&mut pkt as *mut [u8; 8]) }).ok();
            vm.jit_compile().unwrap();
            let jit = unsafe { vm.execute_program_jit(&mut *(&mut pkt as *mut [u8; 8])) }.ok();
            (interp != jit, format!("fixed-metadata VM, 8-byte packet of 0x11: data_end - data is {:?} interpreted and {:?} JIT-compiled (must both be 8)", interp, jit))
        }
        "jit-mov32-reg" => {
            let p = prog(&[i(ebpf::LD_DW_IMM, 1, 0, 0, 0x55667788), i(0, 0, 0, 0, 0x11223344), i(ebpf::MOV32_REG, 0, 1, 0, 0), i(ebpf::EXIT, 0, 0, 0, 0)]);
            let (a, b) = both(&p);
            (a != b, format!("mov32 r0, r1 with r1 = 0x1122334455667788: interpreter {:?}, JIT {:?}", a, b))
        }
        "jit-le-no-truncation" => {
            let p = prog(&[i(ebpf::LD_DW_IMM, 0, 0, 0, 0x55667788), i(0, 0, 0, 0, 0x11223344), i(ebpf::LE, 0, 0, 0, 16), i(ebpf::EXIT, 0, 0, 0, 0)]);
            let (a, b) = both(&p);
            (a != b, format!("le16 r0 with r0 = 0x1122334455667788: interpreter {:?}, JIT {:?}", a, b))
        }
        "jit-divmod-pc-u16" => {
            let mut v = vec![i(ebpf::MOV64_IMM, 0, 0, 0, 0); 65535];
            v.push(i(ebpf::DIV64_REG, 0, 1, 0, 0)); // at pc 65535
            v.push(i(ebpf::EXIT, 0, 0, 0, 0));
            let p = prog(&v);
            let r = catch_unwind(|| { let mut vm = rbpf::EbpfVmNoData::new(Some(&p)).unwrap(); vm.jit_compile().is_ok() });
            (r.is_err(), format!("jit_compile of a verified program with `div64 r0, r1` at pc 65535: {:?}", r.map_err(|_| "panicked")))
        }
        "jit-helper-stack-alignment" => {
            fn probe(_a: u64, _b: u64, _c: u64, _d: u64, _e: u64) -> u64 {
                #[repr(align(16))]
                struct A([u8; 16]);
                let a = A([1; 16]);
                let p = std::hint::black_box(&a) as *const A as u64;
                p % 16
            }
            let p = prog(&[i(ebpf::CALL, 0, 0, 0, 1), i(ebpf::EXIT, 0, 0, 0, 0)]);
            let mut vm = rbpf::EbpfVmNoData::new(Some(&p)).unwrap();
            vm.register_helper(1, probe).unwrap();
            let a = vm.execute_program().ok();
            vm.jit_compile().unwrap();
            let b = unsafe { vm.execute_program_jit() }.ok();
            (b != Some(0), format!("address of a 16-byte aligned local inside a helper, modulo 16: interpreter {:?}, JIT {:?} (the ABI guarantees 0)", a, b))
        }
        "jit-local-call-r10" => {
            // caller stores 1 at [r10-8], callee stores 2 at its own [r10-8], caller reads its slot back
            let p = prog(&[
                i(ebpf::ST_DW_IMM, 10, 0, -8, 1),
                i(ebpf::CALL, 0, 1, 0, 2),
                i(ebpf::LD_DW_REG, 0, 10, -8, 0),
                i(ebpf::EXIT, 0, 0, 0, 0),
                i(ebpf::ST_DW_IMM, 10, 0, -8, 2),
                i(ebpf::EXIT, 0, 0, 0, 0),
            ]);
            let (a, b) = both(&p);
            (a != b, format!("caller and callee both use [r10-8]: interpreter returns {:?} (separate frames), JIT returns {:?}", a, b))
        }
        "clif-jmp64-compared-as-32" => {
            // r1 = 0x1_0000_0005 ; jeq r1, 5 must NOT be taken (64-bit comparison)
            let p = prog(&[i(ebpf::LD_DW_IMM, 1, 0, 0, 5), i(0, 0, 0, 0, 1), i(ebpf::MOV64_IMM, 0, 0, 0, 1), i(ebpf::JEQ_IMM, 1, 0, 1, 5), i(ebpf::EXIT, 0, 0, 0, 0), i(ebpf::MOV64_IMM, 0, 0, 0, 2), i(ebpf::EXIT, 0, 0, 0, 0)]);
            let (a, b) = interp_vs_clif(&p);
            (format!("{:?}", a) != b, format!("jeq r1, 5 with r1 = 0x100000005: interpreter {:?}, Cranelift {}", a, b))
        }
        "clif-ldabs-dst" => {
            let p = prog(&[i(ebpf::MOV64_IMM, 0, 0, 0, 7), i(ebpf::LD_ABS_B, 3, 0, 0, 0), i(ebpf::EXIT, 0, 0, 0, 0)]);
            let mut pkt = [0x2au8; 4];
            let mut vm = rbpf::EbpfVmRaw::new(Some(&p)).unwrap();
            let a = vm.execute_program(unsafe { &mut *(&mut pkt as *mut [u8; 4]) }).ok();
            vm.cranelift_compile().unwrap();
            let b = vm.execute_program_cranelift(unsafe { &mut *(&mut pkt as *mut [u8; 4]) }).ok();
            (a != b, format!("ldabsb encoded with dst nibble 3: the result belongs in r0; interpreter {:?}, Cranelift {:?}", a, b))
        }
        "clif-local-call-compiled-as-helper" => {
            // call local +1 ; exit ; mov r0, 9 ; exit   with a helper registered under id 1
            fn h(_a: u64, _b: u64, _c: u64, _d: u64, _e: u64) -> u64 { 77 }
            let p = prog(&[i(ebpf::CALL, 0, 1, 0, 1), i(ebpf::EXIT, 0, 0, 0, 0), i(ebpf::MOV64_IMM, 0, 0, 0, 9), i(ebpf::EXIT, 0, 0, 0, 0)]);
            let mut vm = rbpf::EbpfVmNoData::new(Some(&p)).unwrap();
            vm.register_helper(1, h).unwrap();
            let a = vm.execute_program().ok();
            let c = vm.cranelift_compile();
            let b = if c.is_ok() { vm.execute_program_cranelift().ok() } else { None };
            (c.is_ok(), format!("program with an eBPF-to-eBPF call and a helper registered under the displacement: interpreter {:?}; cranelift_compile is_ok = {}, result {:?} (must be refused)", a, c.is_ok(), b))
        }
        "clif-le-no-truncation" => {
            let p = prog(&[i(ebpf::LD_DW_IMM, 0, 0, 0, 0x55667788), i(0, 0, 0, 0, 0x11223344), i(ebpf::LE, 0, 0, 0, 16), i(ebpf::EXIT, 0, 0, 0, 0)]);
            let (a, b) = interp_vs_clif(&p);
            (format!("{:?}", a) != b, format!("le16 r0 with r0 = 0x1122334455667788: interpreter {:?}, Cranelift {}", a, b))
        }
        "clif-mod32-by-zero" => {
            let p = prog(&[i(ebpf::LD_DW_IMM, 0, 0, 0, 0x55667788), i(0, 0, 0, 0, 0x11223344), i(ebpf::MOV64_IMM, 1, 0, 0, 0), i(ebpf::MOD32_REG, 0, 1, 0, 0), i(ebpf::EXIT, 0, 0, 0, 0)]);
            let (a, b) = interp_vs_clif(&p);
            (format!("{:?}", a) != b, format!("mod32 r0, r1 with r1 = 0, r0 = 0x1122334455667788: interpreter {:?}, Cranelift {}", a, b))
        }
        "clif-exit-off-panics" => {
            let p = prog(&[i(ebpf::MOV64_IMM, 0, 0, 0, 1), i(ebpf::EXIT, 0, 0, -7, 0)]);
            let (a, b) = interp_vs_clif(&p);
            (b == "panic", format!("verified program whose exit carries a (meaningless) offset field -7: interpreter {:?}, Cranelift {}", a, b))
        }
        "clif-jump-to-insn-0" => {
            // 0: mov r0, 1 ; 1: jeq r0, 0, -2 (-> 0, not taken) ; 2: exit
            let p = prog(&[i(ebpf::MOV64_IMM, 0, 0, 0, 1), i(ebpf::JEQ_IMM, 0, 0, -2, 0), i(ebpf::EXIT, 0, 0, 0, 0)]);
            let (a, b) = interp_vs_clif(&p);
            (format!("{:?}", a) != b, format!("program with a backward jump to instruction 0: interpreter {:?}, Cranelift {}", a, b))
        }
        "helpers-trace-printf-count" => {
            let want = format!("bpf_trace_printf: {:#x}, {:#x}, {:#x}\n", u64::MAX, 0u64, 0u64).len() as u64;
            let got = rbpf::helpers::bpf_trace_printf(0, 0, u64::MAX, 0, 0);
            (got != want, format!("bpf_trace_printf(_, _, u64::MAX, 0, 0) prints {} bytes and returns {}", want, got))
        }
        "stack-validate-helper-call-as-entry" => {
            fn calc(_prog: &[u8], pc: usize, _data: &mut dyn std::any::Any) -> u16 { if pc == 0 { 16 } else if pc == 6 { 32 } else { 400 } }
            fn h(a: u64, _b: u64, _c: u64, _d: u64, _e: u64) -> u64 { a }
            let p = prog(&[
                i(ebpf::CALL, 0, 0, 0, 1),       // helper #1: NOT a local call, yet pc 0+1+1 = 2 becomes a "function entry"
                i(ebpf::MOV64_REG, 6, 10, 0, 0),
                i(ebpf::CALL, 0, 1, 0, 3),       // local call -> 6
                i(ebpf::SUB64_REG, 6, 0, 0, 0),
                i(ebpf::MOV64_REG, 0, 6, 0, 0),
                i(ebpf::EXIT, 0, 0, 0, 0),
                i(ebpf::MOV64_REG, 0, 10, 0, 0),
                i(ebpf::EXIT, 0, 0, 0, 0),
            ]);
            let mut vm = rbpf::EbpfVmNoData::new(Some(&p)).unwrap();
            vm.register_helper(1, h).unwrap();
            vm.set_stack_usage_calculator(calc, Box::new(())).unwrap();
            let r = vm.execute_program().ok();
            (r != Some(16), format!("main's frame size is 16 (calculator value for entry 0): the callee's r10 is lower by {:?}", r))
        }
        _ => return None,
    })
}
