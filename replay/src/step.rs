// `replay step <witness.json>`: turn a counterexample of the interpreter-step obligations
// (pre-state, instruction, pc) into a REAL program, run it on the real crate (interpreter, and the
// JIT when asked), and compare with spec_step on the state that was really reached.
//
// Program layout (all indices are instruction slots):
//   0            : ja -> PRE           (chain of ja hops if far)
//   P            : the instruction under test (P+1: second half for lddw)
//   F = P+1|P+2  : observer block "fell through"
//   T = P+1+off  : observer block "jumped"            (only for jumps, when T != F)
//   PRE          : lddw r0..r9 = witness values (pointer-valued registers are re-based on the real
//                  buffers), then ja -> P
// An observer block stores r0..r10 into a 96-byte report buffer registered as allowed memory, then a
// tag, then exits.  Anything that lands elsewhere hits an `exit` filler and leaves the tag at 0.
use crate::spec::*;
use rbpf::ebpf::{self, Insn};
use std::panic::{catch_unwind, AssertUnwindSafe};

fn ins(opc: u8, dst: u8, src: u8, off: i16, imm: i32) -> Insn { Insn { opc, dst, src, off, imm } }

#[derive(Clone, Copy, PartialEq, Eq, Debug)]
pub enum Engine { Interp, Jit, Clif }

pub struct Wit {
    pub engine: Engine,
    pub insn: SInsn,
    pub next_imm: i32,
    pub reg: [u64; 11],
    pub pc: usize,
    pub n: usize,
    pub depth: usize,
    pub mem: (u64, u64),
    pub mbuff: (u64, u64),
    pub stack: (u64, u64),
    pub load_data: u64,
}

const OBS_LEN: usize = 18;

fn obs_block(report: u64, tag: i32) -> Vec<Insn> {
    // uses the stack slot [r10-8] to free r1 (r10 is intact for every non-call instruction)
    let mut v = vec![
        ins(ebpf::ST_DW_REG, 10, 1, -8, 0),
        ins(ebpf::LD_DW_IMM, 1, 0, 0, report as u32 as i32),
        ins(0, 0, 0, 0, (report >> 32) as u32 as i32),
        ins(ebpf::ST_DW_REG, 1, 0, 0, 0),
        ins(ebpf::LD_DW_REG, 0, 10, -8, 0),
        ins(ebpf::ST_DW_REG, 1, 0, 8, 0),
    ];
    for k in 2..=10u8 {
        v.push(ins(ebpf::ST_DW_REG, 1, k, 8 * k as i16, 0));
    }
    v.push(ins(ebpf::ST_DW_IMM, 1, 0, 88, tag));
    v.push(ins(ebpf::MOV64_IMM, 0, 0, 0, tag));
    v.push(ins(ebpf::EXIT, 0, 0, 0, 0));
    assert!(v.len() == OBS_LEN);
    v
}

fn overlaps(a: (usize, usize), b: (usize, usize)) -> bool { a.0 < b.1 && b.0 < a.1 }

pub struct Built { pub prog: Vec<u8>, pub p: usize, pub f: usize, pub t: Option<usize>, pub n: usize }

/// place code so that the instruction sits at slot `p`
/// what the two continuation blocks do: store everything into the report buffer (interpreter: registered
/// memory), or - for the compiled engines, which know no registered memory - return a tag / one register
#[derive(Clone, Copy)]
pub enum Obs { Report(u64), Tag, Reg(u8) }

fn obs_small(o: Obs, tag: i32) -> Vec<Insn> {
    let mut v = match o {
        Obs::Tag => vec![ins(ebpf::MOV64_IMM, 0, 0, 0, tag)],
        Obs::Reg(k) => vec![ins(ebpf::MOV64_REG, 0, k, 0, 0)],
        Obs::Report(_) => unreachable!(),
    };
    v.push(ins(ebpf::EXIT, 0, 0, 0, 0));
    while v.len() < OBS_LEN { v.push(ins(ebpf::EXIT, 0, 0, 0, 0)); }
    v
}

fn build(w: &Wit, p: usize, regs: &[u64; 10], obs: Obs) -> Result<Built, String> {
    let i = w.insn;
    let is_lddw = i.opc == OP_LDDW;
    let f = p + if is_lddw { 2 } else { 1 };
    let jump = is_jump(i.opc);
    let t = if jump { let t = p as i64 + 1 + i.off as i64; if t < 0 { return Err("jump target negative".into()); } Some(t as usize) } else { None };
    // fixed slots: the instruction, and one trampoline slot at each continuation point
    let mut fixed: Vec<(usize, usize)> = vec![(p, f), (f, f + 1)];
    if let Some(t) = t { if t != f { fixed.push((t, t + 1)); } }
    for a in 0..fixed.len() { for b in a + 1..fixed.len() { if overlaps(fixed[a], fixed[b]) { return Err("a continuation point coincides with the instruction".into()); } } }
    if fixed.iter().any(|r| r.0 == 0) { return Err("slot 0 is needed both as entry and by the witness".into()); }
    let end = fixed.iter().map(|r| r.1).max().unwrap();
    let obs1 = end + 1;
    let obs2 = obs1 + OBS_LEN;
    let pre = obs2 + OBS_LEN;
    let pre_len = 2 * 10 + 2;
    let n = pre + pre_len + 70_000; // room for hop landings
    let mut slots: Vec<Option<Insn>> = vec![None; n];
    let put = |slots: &mut Vec<Option<Insn>>, at: usize, v: &[Insn]| -> Result<(), String> {
        for (k, x) in v.iter().enumerate() {
            if slots[at + k].is_some() { return Err(format!("slot {} used twice", at + k)); }
            slots[at + k] = Some(x.clone());
        }
        Ok(())
    };
    put(&mut slots, p, &[ins(i.opc, i.dst, i.src, i.off, i.imm)])?;
    if is_lddw { put(&mut slots, p + 1, &[ins(0, 0, 0, 0, w.next_imm)])?; }
    match obs {
        Obs::Report(report) => { put(&mut slots, obs1, &obs_block(report, 1))?; put(&mut slots, obs2, &obs_block(report, 2))?; }
        o => { put(&mut slots, obs1, &obs_small(o, 1))?; put(&mut slots, obs2, &obs_small(o, 2))?; }
    }
    let mut pv = vec![];
    for k in 0..10u8 {
        pv.push(ins(ebpf::LD_DW_IMM, k, 0, 0, regs[k as usize] as u32 as i32));
        pv.push(ins(0, 0, 0, 0, (regs[k as usize] >> 32) as u32 as i32));
    }
    put(&mut slots, pre, &pv)?;
    // goto helper: chain of ja through free slots (hops of at most 32000 slots)
    fn goto(slots: &mut Vec<Option<Insn>>, from: usize, to: usize) -> Result<(), String> {
        let mut cur = from;
        loop {
            if slots[cur].is_some() { return Err(format!("hop slot {} busy", cur)); }
            let d = to as i64 - (cur as i64 + 1);
            if d >= -32768 && d <= 32767 && d != -1 {
                slots[cur] = Some(Insn { opc: ebpf::JA, dst: 0, src: 0, off: d as i16, imm: 0 });
                return Ok(());
            }
            let step: i64 = if d > 0 { 32000 } else { -32000 };
            let mut land = (cur as i64 + 1 + step) as usize;
            while slots[land].is_some() { land += 1; }
            slots[cur] = Some(Insn { opc: ebpf::JA, dst: 0, src: 0, off: (land as i64 - cur as i64 - 1) as i16, imm: 0 });
            cur = land;
        }
    }
    goto(&mut slots, 0, pre)?;
    goto(&mut slots, pre + 20, p)?;
    goto(&mut slots, f, obs1)?;
    if let Some(t) = t { if t != f { goto(&mut slots, t, obs2)?; } }
    // trim unused tail
    let last_used = slots.iter().rposition(|x| x.is_some()).unwrap();
    slots.truncate(last_used + 2);
    let n = slots.len();
    let mut prog = Vec::with_capacity(n * 8);
    for s in slots.iter() {
        let x = s.clone().unwrap_or(ins(ebpf::EXIT, 0, 0, 0, 0));
        prog.extend_from_slice(&x.to_array());
    }
    Ok(Built { prog, p, f, t, n })
}

#[derive(Debug)]
pub enum RealOut { Observed { tag: u64, regs: [u64; 11] }, Err, Panic, Rejected, Other(u64) }

pub fn replay(w: &Wit) -> String {
    if w.engine != Engine::Interp { return replay_compiled(w); }
    // the call depth of the witness is irrelevant for instructions other than call/exit: replayed at depth 0
    if w.insn.opc == OP_CALL || w.insn.opc == OP_EXIT { return "NOT-REPLAYABLE call/exit witnesses are replayed by the finding programs".into(); }
    // real buffers: same sizes as in the witness (capped), pointer-valued registers are re-based
    let mem_len = w.mem.1.min(4096) as usize;
    let mbuff_len = w.mbuff.1.min(4096) as usize;
    let mut mem = vec![0u8; mem_len];
    let mut mbuff = vec![0u8; mbuff_len];
    for (k, b) in mem.iter_mut().enumerate() { *b = (w.load_data >> (8 * (k % 8))) as u8; }
    for (k, b) in mbuff.iter_mut().enumerate() { *b = (w.load_data >> (8 * (k % 8))) as u8; }
    let report = vec![0u64; 12];
    let report_addr = report.as_ptr() as u64;
    let rebase = |v: u64| -> u64 {
        let near = |v: u64, base: u64, len: u64| -> Option<i128> {
            let d = v as i128 - base as i128;
            if d >= -64 && d <= len as i128 + 64 { Some(d) } else { None }
        };
        if let Some(d) = near(v, w.mem.0, w.mem.1) { if w.mem.1 > 0 { return (mem.as_ptr() as i128 + d) as u64; } }
        if let Some(d) = near(v, w.mbuff.0, w.mbuff.1) { if w.mbuff.1 > 0 { return (mbuff.as_ptr() as i128 + d) as u64; } }
        v
    };
    let mut regs = [0u64; 10];
    for k in 0..10 { regs[k] = rebase(w.reg[k]); }
    let mut attempts = vec![64usize];
    if w.pc > 64 { attempts.push(w.pc); }
    let mut last = String::from("NOT-REPRODUCED");
    for p in attempts {
        let b = match build(w, p, &regs, Obs::Report(report_addr)) { Ok(b) => b, Err(e) => { last = format!("NOT-REPLAYABLE {}", e); continue; } };
        let out = {
            let mut vm = match rbpf::EbpfVmMbuff::new(Some(&b.prog)) { Ok(v) => v, Err(e) => { last = format!("NOT-REPLAYABLE the verifier refuses the witness program: {}", e); continue; } };
            vm.register_allowed_memory(report_addr..report_addr + 96);
            let hook = std::panic::take_hook();
            std::panic::set_hook(Box::new(|_| {}));
            let r = catch_unwind(AssertUnwindSafe(|| vm.execute_program(&mem, &mbuff)));
            std::panic::set_hook(hook);
            match r {
                Err(_) => RealOut::Panic,
                Ok(Err(_)) => RealOut::Err,
                Ok(Ok(v)) => {
                    let tag = unsafe { std::ptr::read_volatile(report.as_ptr().add(11)) };
                    if tag == 0 { RealOut::Other(v) } else {
                        let mut rr = [0u64; 11];
                        for k in 0..11 { rr[k] = unsafe { std::ptr::read_volatile(report.as_ptr().add(k)) }; }
                        RealOut::Observed { tag, regs: rr }
                    }
                }
            }
        };
        // what the ISA prescribes from the state really reached at P: r0..r9 as loaded, r10 = what the VM set
        // (unknown before the run: taken from the report when there is one)
        let mut pre = SState { reg: [0; 11], pc: b.p, depth: 0, frames: [SFrame { ret: 0, saved: [0; 4], usage: 256 }; 8] };
        for k in 0..10 { pre.reg[k] = regs[k]; }
        if let RealOut::Observed { regs: rr, .. } = &out { pre.reg[10] = rr[10]; }
        let lay = SLayout {
            mbuff: SRegion { base: mbuff.as_ptr() as u64, len: mbuff_len as u64 },
            mem: SRegion { base: mem.as_ptr() as u64, len: mem_len as u64 },
            stack: SRegion { base: pre.reg[10].wrapping_sub(512), len: 512 },
            allowed: Some((report_addr, report_addr + 96)),
        };
        // value a load would see
        let want0 = spec_step(&pre, w.insn, &lay, &SOracle { load_data: 0, helper_present: false, helper_ret: 0, entry_usage: None, next_imm: w.next_imm });
        let load_data = match want0.access {
            SAccess::Load { addr, width } => {
                let mut v = 0u64;
                for k in 0..width as u64 { v |= (unsafe { std::ptr::read_volatile((addr + k) as *const u8) } as u64) << (8 * k); }
                v
            }
            _ => 0,
        };
        let want = spec_step(&pre, w.insn, &lay, &SOracle { load_data, helper_present: false, helper_ret: 0, entry_usage: None, next_imm: w.next_imm });
        let verdict = match (&want.kind, &out) {
            (SKind::Err, RealOut::Err) => None,
            (SKind::Err, o) => Some(format!("the ISA prescribes an error value, the real interpreter gave {:?}", o)),
            (SKind::Continue, RealOut::Observed { tag, regs: rr }) => {
                let landed = if *tag == 1 { b.f } else { b.t.unwrap_or(b.f) };
                if landed != want.post.pc { Some(format!("next pc: prescribed {}, real {}", want.post.pc, landed)) }
                else {
                    let mut diff = None;
                    for k in 0..10 { if rr[k] != want.post.reg[k] { diff = Some(format!("r{}: prescribed {:#x}, real {:#x}", k, want.post.reg[k], rr[k])); } }
                    diff
                }
            }
            (SKind::Continue, o) => Some(format!("the ISA prescribes normal continuation at pc {}, the real interpreter gave {:?}", want.post.pc, o)),
            (SKind::Exit(_), _) => None,
        };
        match verdict {
            Some(v) => return format!("REPRODUCED at pc {} of a {}-instruction program: {} [insn opc={:#04x} dst={} src={} off={} imm={}]", b.p, b.n, v, w.insn.opc, w.insn.dst, w.insn.src, w.insn.off, w.insn.imm),
            None => last = format!("NOT-REPRODUCED at pc {}: the real interpreter agrees with the ISA on the re-based witness", b.p),
        }
    }
    last
}

/// One run of a witness program on a compiled engine.  A trap / wild access kills the process: the caller
/// (main.rs) runs this in a child process and reads the protocol lines printed (and flushed) before each run.
fn run_compiled(engine: Engine, prog: &[u8], mem: &mut Vec<u8>, mbuff: &mut Vec<u8>, fill: u64) -> Result<u64, String> {
    for (k, b) in mem.iter_mut().enumerate() { *b = (fill >> (8 * (k % 8))) as u8; }
    for (k, b) in mbuff.iter_mut().enumerate() { *b = (fill >> (8 * (k % 8))) as u8; }
    let mem_s: &mut [u8] = unsafe { std::slice::from_raw_parts_mut(mem.as_mut_ptr(), mem.len()) };
    let mbuff_s: &mut [u8] = unsafe { std::slice::from_raw_parts_mut(mbuff.as_mut_ptr(), mbuff.len()) };
    let mut vm = rbpf::EbpfVmMbuff::new(Some(prog)).map_err(|e| format!("verifier: {}", e))?;
    match engine {
        Engine::Jit => { vm.jit_compile().map_err(|e| format!("jit_compile: {}", e))?; unsafe { vm.execute_program_jit(mem_s, mbuff_s) }.map_err(|e| format!("execute: {}", e)) }
        Engine::Clif => { vm.cranelift_compile().map_err(|e| format!("cranelift_compile: {}", e))?; vm.execute_program_cranelift(mem_s, mbuff_s).map_err(|e| format!("execute: {}", e)) }
        Engine::Interp => vm.execute_program(mem_s, mbuff_s).map_err(|e| format!("execute: {}", e)),
    }
}

fn say(line: &str) {
    use std::io::Write;
    println!("{}", line);
    let _ = std::io::stdout().flush();
}

/// Compiled engines (x86-64 JIT, Cranelift): the witness program is run once per observed quantity
/// (landing block, r10, r0..r9), buffers refilled before every run, and compared with spec_step.
pub fn replay_compiled(w: &Wit) -> String {
    if w.insn.opc == OP_CALL || w.insn.opc == OP_EXIT { return "NOT-REPLAYABLE call/exit witnesses are replayed by the finding programs".into(); }
    let mem_len = w.mem.1.min(4096) as usize;
    let mbuff_len = w.mbuff.1.min(4096) as usize;
    let mut mem = vec![0u8; mem_len];
    let mut mbuff = vec![0u8; mbuff_len];
    let (mem_base, mbuff_base) = (mem.as_ptr() as u64, mbuff.as_ptr() as u64);
    let near = |v: u64, base: u64, len: u64| -> Option<i128> { let d = v as i128 - base as i128; if d >= -64 && d <= len as i128 + 64 { Some(d) } else { None } };
    let rebase = |v: u64| -> u64 {
        if let Some(d) = near(v, w.mem.0, w.mem.1) { if w.mem.1 > 0 { return (mem_base as i128 + d) as u64; } }
        if let Some(d) = near(v, w.mbuff.0, w.mbuff.1) { if w.mbuff.1 > 0 { return (mbuff_base as i128 + d) as u64; } }
        v
    };
    let mut regs = [0u64; 10];
    for k in 0..10 { regs[k] = rebase(w.reg[k]); }
    let stack_rel = (0..10).any(|k| near(w.reg[k], w.stack.0, w.stack.1).is_some()) || w.insn.dst == 10 || w.insn.src == 10;
    let p = if w.pc > 64 { w.pc } else { 64 };
    let b0 = match build(w, p, &regs, Obs::Tag) { Ok(b) => b, Err(e) => return format!("NOT-REPLAYABLE {}", e) };
    let mut pre = SState { reg: [0; 11], pc: b0.p, depth: 0, frames: [SFrame { ret: 0, saved: [0; 4], usage: 256 }; 8] };
    for k in 0..10 { pre.reg[k] = regs[k]; }
    let o0 = SOracle { load_data: 0, helper_present: false, helper_ret: 0, entry_usage: None, next_imm: w.next_imm };
    // r10 as the engine sets it: observed with the instruction under test replaced by a no-op, so that the
    // stack region is known BEFORE the instruction is ever run
    say("EXPECT-UNKNOWN");
    say("RUN r10");
    let nop = Wit { insn: SInsn { opc: 0xbf, dst: 0, src: 0, off: 0, imm: 0 }, ..clone_wit(w) };
    let b10 = match build(&nop, p, &regs, Obs::Reg(10)) { Ok(b) => b, Err(e) => return format!("NOT-REPLAYABLE {}", e) };
    let r10 = match run_compiled(w.engine, &b10.prog, &mut mem, &mut mbuff, w.load_data) { Ok(v) => v, Err(e) => return format!("NOT-REPLAYABLE {}", e) };
    pre.reg[10] = r10;
    // registers that pointed into the witness stack are re-based on the real one
    for k in 0..10 {
        if let Some(d) = near(w.reg[k], w.stack.0, w.stack.1) { if near(w.reg[k], w.mem.0, w.mem.1).is_none() && near(w.reg[k], w.mbuff.0, w.mbuff.1).is_none() { regs[k] = ((r10 as i128 - 512) + d) as u64; pre.reg[k] = regs[k]; } }
    }
    let mk = |o: Obs| build(w, p, &regs, o);
    let b0 = match mk(Obs::Tag) { Ok(b) => b, Err(e) => return format!("NOT-REPLAYABLE {}", e) };
    let lay0 = SLayout { mbuff: SRegion { base: mbuff_base, len: mbuff_len as u64 }, mem: SRegion { base: mem_base, len: mem_len as u64 }, stack: SRegion { base: r10.wrapping_sub(512), len: 512 }, allowed: None };
    let lay = lay0;
    // refill as run_compiled will, so that a load sees what the spec is told it sees
    for (k, b) in mem.iter_mut().enumerate() { *b = (w.load_data >> (8 * (k % 8))) as u8; }
    for (k, b) in mbuff.iter_mut().enumerate() { *b = (w.load_data >> (8 * (k % 8))) as u8; }
    let want0 = spec_step(&pre, w.insn, &lay, &o0);
    let load_data = match want0.access {
        SAccess::Load { addr, width } if want0.kind != SKind::Err => { let mut v = 0u64; for k in 0..width as u64 { v |= (unsafe { std::ptr::read_volatile((addr + k) as *const u8) } as u64) << (8 * k); } v }
        SAccess::AtomicAdd { addr, width, .. } if want0.kind != SKind::Err => { let mut v = 0u64; for k in 0..width as u64 { v |= (unsafe { std::ptr::read_volatile((addr + k) as *const u8) } as u64) << (8 * k); } v }
        _ => 0,
    };
    let want = spec_step(&pre, w.insn, &lay, &SOracle { load_data, ..o0 });
    say(if want.kind == SKind::Err { "EXPECT-ERR" } else { "EXPECT-OK" });
    say("RUN tag");
    let tag = match run_compiled(w.engine, &b0.prog, &mut mem, &mut mbuff, w.load_data) { Ok(v) => v, Err(e) => {
        return if want.kind == SKind::Err { format!("NOT-REPRODUCED the real {:?} engine reports an error where the ISA prescribes one ({})", w.engine, e) }
               else { format!("REPRODUCED at pc {}: the ISA prescribes normal continuation, the real {:?} engine failed: {} [{}]", b0.p, w.engine, e, show(w)) } } };
    if want.kind == SKind::Err {
        return format!("REPRODUCED at pc {}: the ISA prescribes an error (an access outside the regions), the real {:?} engine carried on (landing tag {}) [{}]", b0.p, w.engine, tag, show(w));
    }
    if let SKind::Exit(_) = want.kind { return "NOT-REPLAYABLE exit".into(); }
    let landed = if tag == 1 { b0.f } else if tag == 2 { b0.t.unwrap_or(b0.f) } else { usize::MAX };
    if landed != want.post.pc {
        return format!("REPRODUCED at pc {}: next pc: prescribed {}, real {} (tag {}) [{}]", b0.p, want.post.pc, landed, tag, show(w));
    }
    // memory effect of a store / atomic add, read back from the real buffer after the tag run
    match want.access {
        SAccess::Store { addr, width, val } | SAccess::AtomicAdd { addr, width, val } if !in_stack(addr, r10) => {
            let mut v = 0u64;
            for k in 0..width as u64 { v |= (unsafe { std::ptr::read_volatile((addr + k) as *const u8) } as u64) << (8 * k); }
            let expect = match want.access { SAccess::AtomicAdd { .. } => load_data.wrapping_add(val) & if width == 8 { u64::MAX } else { 0xffff_ffff }, _ => val };
            if v != expect { return format!("REPRODUCED at pc {}: memory at {:#x} (width {}): prescribed {:#x}, real {:#x} [{}]", b0.p, addr, width, expect, v, show(w)); }
        }
        _ => {}
    }
    for k in 0..10u8 {
        say(&format!("RUN r{}", k));
        let bk = match mk(Obs::Reg(k)) { Ok(b) => b, Err(e) => return format!("NOT-REPLAYABLE {}", e) };
        match run_compiled(w.engine, &bk.prog, &mut mem, &mut mbuff, w.load_data) {
            Ok(v) => if v != want.post.reg[k as usize] { return format!("REPRODUCED at pc {}: r{}: prescribed {:#x}, real {:#x} [{}]", b0.p, k, want.post.reg[k as usize], v, show(w)); },
            Err(e) => return format!("REPRODUCED at pc {}: the real {:?} engine failed on a re-run: {} [{}]", b0.p, w.engine, e, show(w)),
        }
    }
    format!("NOT-REPRODUCED at pc {}: the real {:?} engine agrees with the ISA on the re-based witness", b0.p, w.engine)
}

fn in_stack(addr: u64, r10: u64) -> bool { addr >= r10.wrapping_sub(512) && addr < r10 }

fn clone_wit(w: &Wit) -> Wit { Wit { engine: w.engine, insn: w.insn, next_imm: w.next_imm, reg: w.reg, pc: w.pc, n: w.n, depth: w.depth, mem: w.mem, mbuff: w.mbuff, stack: w.stack, load_data: w.load_data } }

fn show(w: &Wit) -> String { format!("insn opc={:#04x} dst={} src={} off={} imm={}", w.insn.opc, w.insn.dst, w.insn.src, w.insn.off, w.insn.imm) }

pub fn from_json(s: &str) -> Result<Wit, String> {
    let j = json::parse(s).map_err(|e| e.to_string())?;
    let u = |v: &json::JsonValue| -> u64 { v.as_str().map(|x| x.parse::<u64>().unwrap_or(0)).or(v.as_u64()).unwrap_or(0) };
    let i = &j["insn"];
    let mut reg = [0u64; 11];
    for k in 0..11 { reg[k] = u(&j["reg"][k]); }
    Ok(Wit {
        engine: match j["engine"].as_str() { Some("jit") => Engine::Jit, Some("cranelift") => Engine::Clif, _ => Engine::Interp },
        insn: SInsn { opc: u(&i["opc"]) as u8, dst: u(&i["dst"]) as u8, src: u(&i["src"]) as u8, off: i["off"].as_i64().unwrap_or(0) as i16, imm: i["imm"].as_i64().unwrap_or(0) as i32 },
        next_imm: j["next_imm"].as_i64().unwrap_or(0) as i32,
        reg, pc: u(&j["pc"]) as usize, n: u(&j["n"]) as usize, depth: u(&j["depth"]) as usize,
        mem: (u(&j["mem"][0]), u(&j["mem"][1])), mbuff: (u(&j["mbuff"][0]), u(&j["mbuff"][1])), stack: (u(&j["stack"][0]), u(&j["stack"][1])),
        load_data: u(&j["load_data"]),
    })
}
