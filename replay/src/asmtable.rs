// Exhaustive native evaluation of the assembler's mnemonic table through the PUBLIC API
// (assemble), against the documented table: mnemonic -> (operand shape, opcode).
// One OBLIGATION line per mnemonic.  This is evaluation of a finite closed table,
// not SMT: recorded as such in the evidence.
use rbpf::assembler::assemble;
use rbpf::ebpf::{self, Insn};

#[derive(Clone, Copy)]
enum Shape { AluBin, AluUn, LdAbs, LdInd, LdReg, StImm, StReg, NoOp, Ja, JmpCond, Call, Callx, Endian(i32), Lddw }

fn table() -> Vec<(String, Shape, u8)> {
    let mut t: Vec<(String, Shape, u8)> = vec![];
    let alu = [("add", ebpf::BPF_ADD), ("sub", ebpf::BPF_SUB), ("mul", ebpf::BPF_MUL), ("div", ebpf::BPF_DIV), ("or", ebpf::BPF_OR),
               ("and", ebpf::BPF_AND), ("lsh", ebpf::BPF_LSH), ("rsh", ebpf::BPF_RSH), ("mod", ebpf::BPF_MOD), ("xor", ebpf::BPF_XOR),
               ("mov", ebpf::BPF_MOV), ("arsh", ebpf::BPF_ARSH)];
    for (n, o) in alu {
        t.push((n.to_string(), Shape::AluBin, ebpf::BPF_ALU64 | o));
        t.push((format!("{n}32"), Shape::AluBin, ebpf::BPF_ALU | o));
        t.push((format!("{n}64"), Shape::AluBin, ebpf::BPF_ALU64 | o));
    }
    t.push(("neg".into(), Shape::AluUn, ebpf::NEG64));
    t.push(("neg32".into(), Shape::AluUn, ebpf::NEG32));
    t.push(("neg64".into(), Shape::AluUn, ebpf::NEG64));
    for (sfx, sz) in [("w", ebpf::BPF_W), ("h", ebpf::BPF_H), ("b", ebpf::BPF_B), ("dw", ebpf::BPF_DW)] {
        t.push((format!("ldabs{sfx}"), Shape::LdAbs, ebpf::BPF_LD | ebpf::BPF_ABS | sz));
        t.push((format!("ldind{sfx}"), Shape::LdInd, ebpf::BPF_LD | ebpf::BPF_IND | sz));
        t.push((format!("ldx{sfx}"), Shape::LdReg, ebpf::BPF_LDX | ebpf::BPF_MEM | sz));
        t.push((format!("st{sfx}"), Shape::StImm, ebpf::BPF_ST | ebpf::BPF_MEM | sz));
        t.push((format!("stx{sfx}"), Shape::StReg, ebpf::BPF_STX | ebpf::BPF_MEM | sz));
    }
    for (n, c) in [("jeq", ebpf::BPF_JEQ), ("jgt", ebpf::BPF_JGT), ("jge", ebpf::BPF_JGE), ("jlt", ebpf::BPF_JLT), ("jle", ebpf::BPF_JLE),
                   ("jset", ebpf::BPF_JSET), ("jne", ebpf::BPF_JNE), ("jsgt", ebpf::BPF_JSGT), ("jsge", ebpf::BPF_JSGE),
                   ("jslt", ebpf::BPF_JSLT), ("jsle", ebpf::BPF_JSLE)] {
        t.push((n.to_string(), Shape::JmpCond, ebpf::BPF_JMP | c));
        t.push((format!("{n}32"), Shape::JmpCond, ebpf::BPF_JMP32 | c));
    }
    for sz in [16, 32, 64] {
        t.push((format!("be{sz}"), Shape::Endian(sz), ebpf::BE));
        t.push((format!("le{sz}"), Shape::Endian(sz), ebpf::LE));
    }
    t.push(("exit".into(), Shape::NoOp, ebpf::EXIT));
    t.push(("ja".into(), Shape::Ja, ebpf::JA));
    t.push(("call".into(), Shape::Call, ebpf::CALL));
    t.push(("callx".into(), Shape::Callx, ebpf::CALL));
    t.push(("lddw".into(), Shape::Lddw, ebpf::LD_DW_IMM));
    t
}

fn bytes(v: &[Insn]) -> Vec<u8> { v.iter().flat_map(|i| i.to_array()).collect() }
fn i(opc: u8, dst: u8, src: u8, off: i16, imm: i32) -> Insn { Insn { opc, dst, src, off, imm } }

pub fn run() -> bool {
    let mut all_ok = true;
    for (name, shape, opc) in table() {
        // (text, expected) pairs per shape: decimal, hexadecimal, signed forms
        let cases: Vec<(String, Vec<Insn>)> = match shape {
            Shape::AluBin => vec![
                (format!("{name} r3, r7"), vec![i(opc | ebpf::BPF_X, 3, 7, 0, 0)]),
                (format!("{name} r15, -0x80000000"), vec![i(opc | ebpf::BPF_K, 15, 0, 0, i32::MIN)]),
                (format!("{name} r0, +2147483647"), vec![i(opc | ebpf::BPF_K, 0, 0, 0, i32::MAX)])],
            Shape::AluUn => vec![(format!("{name} r9"), vec![i(opc, 9, 0, 0, 0)])],
            Shape::LdAbs => vec![(format!("{name} 0x1234"), vec![i(opc, 0, 0, 0, 0x1234)])],
            Shape::LdInd => vec![(format!("{name} r7, -5"), vec![i(opc, 0, 7, 0, -5)])],
            Shape::LdReg => vec![(format!("{name} r3, [r7-0x8000]"), vec![i(opc, 3, 7, i16::MIN, 0)]), (format!("{name} r3, [r7]"), vec![i(opc, 3, 7, 0, 0)])],
            Shape::StImm => vec![(format!("{name} [r3+32767], -1"), vec![i(opc, 3, 0, i16::MAX, -1)])],
            Shape::StReg => vec![(format!("{name} [r3-5], r7"), vec![i(opc, 3, 7, -5, 0)])],
            Shape::NoOp => vec![(name.clone(), vec![i(opc, 0, 0, 0, 0)])],
            Shape::Ja => vec![(format!("{name} -3"), vec![i(opc, 0, 0, -3, 0)]), (format!("{name} +0x10"), vec![i(opc, 0, 0, 16, 0)])],
            Shape::JmpCond => vec![
                (format!("{name} r3, r7, +4"), vec![i(opc | ebpf::BPF_X, 3, 7, 4, 0)]),
                (format!("{name} r3, -2, -4"), vec![i(opc | ebpf::BPF_K, 3, 0, -4, -2)])],
            Shape::Call => vec![(format!("{name} 0x7fffffff"), vec![i(opc, 0, 0, 0, i32::MAX)])],
            Shape::Callx => vec![(format!("{name} -2"), vec![i(opc, 0, 1, 0, -2)])],
            Shape::Endian(sz) => vec![(format!("{name} r5"), vec![i(opc, 5, 0, 0, sz)])],
            Shape::Lddw => vec![
                (format!("{name} r4, 0x8877665544332211"), vec![i(opc, 4, 0, 0, 0x44332211), i(0, 0, 0, 0, 0x88776655u32 as i32)]),
                (format!("{name} r4, -1"), vec![i(opc, 4, 0, 0, -1), i(0, 0, 0, 0, -1)])],
        };
        let mut ok = true;
        let mut detail = String::new();
        for (text, want) in cases {
            match assemble(&text) {
                Ok(b) if b == bytes(&want) => {}
                other => { ok = false; detail = format!("`{text}` -> {:?}, expected {:?}", other, bytes(&want)); }
            }
        }
        println!("OBLIGATION mnemonic:{} {} {}", name, if ok { "ok" } else { "failed" }, detail);
        all_ok &= ok;
    }
    for bad in ["frob r1", "add64", "add64 r1", "exit r1", "ldxw r1, r2", "stw [r1+1]", "mov r16, 1", "ja 32768", "mov r1, 0x100000000", "ldxw r1, [r2+32768]"] {
        let ok = assemble(bad).is_err();
        println!("OBLIGATION rejects:`{}` {} ", bad.replace(' ', "_"), if ok { "ok" } else { "failed" });
        all_ok &= ok;
    }
    all_ok
}
