#!/bin/sh
# Offline set-up after a fresh restore: build the replay tool against /repo.
# Everything else (extraction, harness generation, proofs) happens inside each check.
set -e
cd "$(dirname "$0")"
export CARGO_NET_OFFLINE=true
mkdir -p work evidence
(cd replay && cp /repo/Cargo.lock . 2>/dev/null; cargo build --offline -q)
echo setup ok
